package main

import (
	"bytes"
	"fmt"

	ikeCrypto "github.com/free5gc/ike/security/IKECrypto"

	"ikesim/ref"
)

// ---------------------------------------------------------------------------
// C10 — AES-CBC transform: inverse, size law, fresh IVs, bad keys and inputs.
// Histories of calls on long-lived cipher objects, random-source failure at
// every read, IV freshness observed at the SimRand seam.
// ---------------------------------------------------------------------------

type cipherObj struct {
	keyLen int
	key    []byte
	c      ikeCrypto.IKECrypto
	cts    map[int][]byte // ciphertexts produced by this object, by step-assigned id
	pts    map[int][]byte
	dirty  bool // a failed call happened since the last successful one
	recent [][]byte
}

type c10State struct {
	ivs map[string]bool
}

func c10st(w *World) *c10State {
	st, _ := w.ext["c10"].(*c10State)
	if st == nil {
		st = &c10State{ivs: map[string]bool{}}
		w.ext["c10"] = st
	}
	return st
}

func init() {
	ops["cipher_new"] = opCipherNew
	ops["enc"] = opEnc
	ops["dec"] = opDec
	ops["dec_sweep"] = opDecSweep
	ops["enc_failsweep"] = opEncFailSweep
	ops["newcrypto_sweep"] = opNewCryptoSweep
	props["C10"] = &PropDef{
		ID: "C10", Level: "fault_enumeration",
		Gen:   genC10,
		Count: map[string]int{"quick": 150000, "thorough": 3000000},
		Rule: "scenario = 1..3 long-lived cipher objects (key sizes stratified) + a history of up to 64 calls mixing Encrypt (plaintext 0..4096, " +
			"random-source script: plain, short reads, adversarial octets), Decrypt of own / other object's / reference-made ciphertext (any legal pad), " +
			"Decrypt of malformed input, Encrypt with the random source failing at EVERY read index of a clean run (enc_failsweep, all three failure " +
			"modes), NewCrypto with every key length 0..64, and the exhaustive Decrypt table: all lengths 0..96 x all 256 recovered pad-length octets. " +
			"Non-trivial = at least one Encrypt succeeded and was checked against the reference AES-CBC and one injected failure fired or one malformed " +
			"Decrypt was refused; distinct = distinct abstract traces.",
		Components: defaultComponents,
	}
}

func (w *World) cipher(id int) *cipherObj {
	c := w.ciphers[id]
	if c == nil || c.c == nil {
		return nil
	}
	return c
}

func opCipherNew(w *World, s *Step) (string, string) {
	t := libEncr(s.N)
	if t == nil {
		if w.prop == "C10" {
			w.violate("suite_missing", fmt.Sprint(s.N), "library has no AES-CBC with %d-octet keys", s.N)
		}
		return "nosuite", "nosuite"
	}
	var c ikeCrypto.IKECrypto
	res := &callResult{}
	keyArg := clone(s.Key)
	if s.Repeat != 0 && len(s.Key) > 0 {
		// the caller keeps ONE key buffer and overwrites it for the next object
		kb, _ := w.ext["c10_keybuf"].([]byte)
		if len(kb) < 64 {
			kb = make([]byte, 64)
			w.ext["c10_keybuf"] = kb
		}
		if len(s.Key) <= 64 {
			keyArg = kb[:len(s.Key)]
			copy(keyArg, s.Key)
			w.stats.inc("probe_key_buffer_reused")
		}
	}
	guard(res, func() { c, res.Err = t.NewCrypto(keyArg) })
	good := len(s.Key) == s.N
	if w.prop == "C10" {
		switch {
		case res.Panic != "":
			w.violate("newcrypto_panic", panicKey(res), "NewCrypto(%d-octet key) for AES-%d panicked: %s", len(s.Key), s.N*8, res.Panic)
		case good && (res.Err != nil || c == nil):
			w.violate("key_refused", fmt.Sprint(s.N), "NewCrypto refused a %d-octet key for AES-%d: %v", len(s.Key), s.N*8, res.Err)
		case !good && res.Err == nil:
			w.violate("wrong_key_size_accepted", fmt.Sprintf("%d/%d", s.N, len(s.Key)), "NewCrypto accepted a %d-octet key for AES-%d", len(s.Key), s.N*8)
		}
	}
	if !good {
		w.stats.inc("probe_wrong_key_size_offered")
	}
	if good && res.Err == nil && c != nil {
		w.ciphers[s.Cipher] = &cipherObj{keyLen: s.N, key: clone(s.Key), c: c, cts: map[int][]byte{}, pts: map[int][]byte{}}
	}
	return fmt.Sprintf("%s:%d:%d", res.class(), s.N, len(s.Key)), fmt.Sprintf("%d:%v:%s", s.N, good, res.class())
}

// encrypt runs one Encrypt under a script.
func encrypt(c *cipherObj, pt []byte, rs *RandScript) ([]byte, *callResult) {
	res := &callResult{}
	sc := RandScript{Seed: 3}
	if rs != nil {
		sc = *rs
	}
	res.RandSt = simRand.begin(sc)
	var ct []byte
	in := clone(pt)
	if in == nil {
		in = []byte{}
	}
	guard(res, func() { ct, res.Err = c.c.Encrypt(in) })
	simRand.end()
	return ct, res
}

func decrypt(c *cipherObj, ct []byte) ([]byte, *callResult) {
	res := &callResult{}
	res.RandSt = simRand.begin(RandScript{Seed: 4})
	var pt []byte
	in := rxBuffer(ct, 0)
	guard(res, func() { pt, res.Err = c.c.Decrypt(in) })
	simRand.end()
	return pt, res
}

// checkCiphertext evaluates the size law and the textbook-CBC clause.
func c10CheckCiphertext(w *World, c *cipherObj, pt, ct []byte, what string) bool {
	n := len(pt)
	if len(ct) < 32 || (len(ct)-16)%16 != 0 {
		w.violate("size_law", what, "ciphertext of %d octets for %d plaintext octets is not 16 + 16k", len(ct), n)
		return false
	}
	k16 := len(ct) - 16
	if !(n < k16 && k16 <= n+256) {
		w.violate("size_law", what, "ciphertext body %d octets for %d plaintext octets violates n < 16k <= n+256", k16, n)
		return false
	}
	plain, err := ref.CBCDecrypt(c.key, ct[:16], ct[16:])
	if err != nil {
		w.violate("not_textbook_cbc", what, "reference AES-CBC cannot decrypt: %v", err)
		return false
	}
	if !bytes.Equal(plain[:n], pt) {
		w.violate("not_textbook_cbc", what, "reference AES-CBC decryption does not start with the plaintext (n=%d)", n)
		return false
	}
	if int(plain[len(plain)-1]) != k16-n-1 {
		w.violate("pad_length_octet", what, "last plaintext octet is %d, expected pad length %d (n=%d, 16k=%d)", plain[len(plain)-1], k16-n-1, n, k16)
		return false
	}
	if k16-n-1 == 15 {
		w.stats.inc("probe_pad_length_15_full_block")
	}
	if k16-n-1 == 0 {
		w.stats.inc("probe_pad_length_0")
	}
	return true
}

func opEnc(w *World, s *Step) (string, string) {
	c := w.cipher(s.Cipher)
	if c == nil {
		w.stats.inc("noop_missing_cipher")
		return "nocipher", "nocipher"
	}
	ct, res := encrypt(c, s.Data, s.Rand)
	fired := res.RandSt.fired
	if fired {
		w.stats.inc("fault_rand_failure_fired")
		fm := "err"
		if s.Rand != nil && s.Rand.FailMode != "" {
			fm = s.Rand.FailMode
		}
		w.stats.inc("fault_rand_failure_" + fm)
	} else if s.Rand != nil && s.Rand.FailAt > 0 {
		w.stats.inc("rand_failure_scripted_but_not_reached")
	}
	if s.Rand != nil && s.Rand.Chunk > 0 {
		w.stats.inc("fault_rand_short_reads")
	}
	abs := fmt.Sprintf("%d:%s:fired=%v", c.keyLen, res.class(), fired)
	if w.prop != "C10" {
		if res.class() == "ok" {
			c.cts[s.Ref] = ct
			c.pts[s.Ref] = clone(s.Data)
		}
		return fmt.Sprintf("%s:%x", res.class(), fnv1a(0, ct)), abs
	}
	what := fmt.Sprintf("aes%d", c.keyLen*8)
	switch {
	case res.Panic != "":
		w.violate("encrypt_panic", panicKey(res), "Encrypt(%d octets) panicked: %s", len(s.Data), res.Panic)
		return "panic", abs
	case fired:
		// a failing random source produces an error instead of a ciphertext
		if res.Err == nil || ct != nil {
			w.violate("rand_failure_ignored", what, "random source failed at read %d (%s) but Encrypt returned err=%v and %d ciphertext octets",
				s.Rand.FailAt, s.Rand.FailMode, res.Err, len(ct))
		}
		c.dirty = true
		return "failed", abs
	case res.Err != nil:
		w.violate("encrypt_error", what, "Encrypt(%d octets) failed without any injected fault: %v", len(s.Data), res.Err)
		return "err", abs
	}
	if !c10CheckCiphertext(w, c, s.Data, ct, what) {
		return "badct", abs
	}
	// IV freshness, observed at the seam
	if res.RandSt.total < 16 {
		w.violate("iv_not_from_random_source", what, "Encrypt consumed only %d octets from the random source (< 16 for an IV)", res.RandSt.total)
	}
	plainStream := s.Rand == nil || (s.Rand.PatReads == 0 && len(s.Rand.Prefix) == 0 && !s.Repeat_())
	st := c10st(w)
	iv := string(ct[:16])
	if plainStream {
		if st.ivs[iv] {
			w.violate("iv_repeated", what, "IV %x was already used by an earlier Encrypt in this run although the random stream does not repeat", ct[:16])
		}
		w.stats.inc("iv_freshness_checked")
	}
	st.ivs[iv] = true
	// the IV must carry the randomness it was drawn with: complementing single served octets must change the IV
	// for at least 16 different octet positions (128 bits), whichever of the served octets the library uses for it
	if plainStream && w.step%4 == 0 && res.RandSt.total <= 80 && w.pendingExpand == nil {
		dep := 0
		for j := 1; j <= res.RandSt.total; j++ {
			sc := RandScript{Seed: 3}
			if s.Rand != nil {
				sc = *s.Rand
			}
			sc.FlipAt = j
			ct2, r2 := encrypt(c, s.Data, &sc)
			if r2.class() == "ok" && len(ct2) >= 16 && !bytes.Equal(ct2[:16], ct[:16]) {
				dep++
			}
		}
		if dep < 16 {
			w.violate("iv_depends_on_too_few_random_octets", what, "of the %d octets drawn from the random source only %d influence the IV (an IV with 128 bits of randomness needs 16)", res.RandSt.total, dep)
		}
		w.stats.inc("iv_dependency_on_random_stream_checked")
	}
	// inverse on the same object (history: possibly after failed calls)
	pt2, dres := decrypt(c, ct)
	if dres.class() != "ok" || !bytes.Equal(pt2, s.Data) {
		w.violate("not_inverse", what, "Decrypt(Encrypt(p)) != p on the same object: %s %v", dres.class(), dres.Err)
	}
	if c.dirty {
		w.stats.inc("probe_call_after_failed_call_checked")
		c.dirty = false
	}
	// the caller owns what Encrypt returned, spare capacity included: it appends to EARLIER ciphertexts of this
	// object (as a sender appending a checksum would) - later ones must not change
	for _, prev := range c.recent {
		if spare := cap(prev) - len(prev); spare > 0 {
			junk := bytes.Repeat([]byte{0xEE}, min(spare, 32))
			_ = append(prev, junk...)
			w.stats.inc("probe_appended_into_spare_capacity_of_earlier_ciphertext")
		}
	}
	c.recent = append(c.recent, ct)
	if len(c.recent) > 3 {
		c.recent = c.recent[1:]
	}
	c.cts[s.Ref] = ct
	c.pts[s.Ref] = clone(s.Data)
	w.ext["c10_enc_ok"] = true
	c10Nontriv(w)
	return fmt.Sprintf("ok:%x", fnv1a(0, ct)), abs
}

// Repeat_ reports that the generator deliberately reused an earlier stream.
func (s *Step) Repeat_() bool { return s.Repeat != 0 }

func c10Nontriv(w *World) {
	if w.ext["c10_enc_ok"] == true && w.ext["c10_neg"] == true {
		w.nontriv = true
	}
}

func opDec(w *World, s *Step) (string, string) {
	c := w.cipher(s.Cipher)
	if c == nil {
		w.stats.inc("noop_missing_cipher")
		return "nocipher", "nocipher"
	}
	what := fmt.Sprintf("aes%d", c.keyLen*8)
	var ct, want []byte
	expectErr := false
	switch s.Src {
	case "own", "other":
		// ciphertext produced earlier by cipher s.N (same key required)
		src := w.cipher(s.N)
		if src == nil || src.cts[s.Ref] == nil || !bytes.Equal(src.key, c.key) {
			return "noct", "noct"
		}
		ct, want = src.cts[s.Ref], src.pts[s.Ref]
	case "ref":
		// reference-made: IV, plaintext Data, pad octets Pad (any legal amount)
		if (len(s.Data)+len(s.Pad)+1)%16 != 0 || len(s.IV) != 16 || len(s.Pad) > 255 {
			return "badref", "badref"
		}
		pt := append(append(clone(s.Data), s.Pad...), byte(len(s.Pad)))
		body, err := ref.CBCEncrypt(c.key, s.IV, pt)
		if err != nil {
			return "badref", "badref"
		}
		ct = append(clone(s.IV), body...)
		want = s.Data
		if len(s.Pad) >= 16 {
			w.stats.inc("probe_non_minimal_padding_accepted_path")
		}
	case "raw":
		ct = s.Data
		// classify with the reference
		switch {
		case len(ct) < 32, (len(ct)-16)%16 != 0:
			expectErr = true
		default:
			plain, _ := ref.CBCDecrypt(c.key, ct[:16], ct[16:])
			pl := int(plain[len(plain)-1])
			if pl+1 > len(plain) {
				expectErr = true
			} else {
				want = plain[:len(plain)-pl-1]
			}
		}
	default:
		return "badsrc", "badsrc"
	}
	pt, res := decrypt(c, ct)
	abs := fmt.Sprintf("%d:%s:%s:experr=%v", c.keyLen, s.Src, res.class(), expectErr)
	if w.prop != "C10" {
		return fmt.Sprintf("%s:%x", res.class(), fnv1a(0, pt)), abs
	}
	switch {
	case res.Panic != "":
		w.violate("decrypt_panic", panicKey(res), "Decrypt(%d octets, %s) panicked: %s\n input %x", len(ct), s.Src, res.Panic, trunc(ct, 96))
	case expectErr && res.Err == nil:
		w.violate("malformed_ciphertext_accepted", what, "Decrypt(%d octets) accepted ciphertext that is too short, misaligned or has an impossible pad length", len(ct))
	case expectErr:
		w.stats.inc("probe_malformed_ciphertext_refused")
		w.ext["c10_neg"] = true
	case res.Err != nil:
		w.violate("decrypt_error", what+"/"+s.Src, "Decrypt of well-formed %s ciphertext (%d octets) failed: %v", s.Src, len(ct), res.Err)
	case !bytes.Equal(pt, want):
		w.violate("decrypt_wrong", what+"/"+s.Src, "Decrypt of %s ciphertext returned %d octets, expected %d (first difference matters)", s.Src, len(pt), len(want))
	}
	c10Nontriv(w)
	return res.class(), abs
}

// opDecSweep: all ciphertext lengths 0..96 x all 256 values of the recovered
// pad-length octet (built with the reference so the last plaintext octet is v).
func opDecSweep(w *World, s *Step) (string, string) {
	c := w.cipher(s.Cipher)
	if c == nil {
		return "nocipher", "nocipher"
	}
	r := NewRng(s.SpiI ^ 0xdec)
	lo, hi := s.From_, 97*256
	if s.To_ > 0 && s.To_ < hi {
		hi = s.To_
	}
	refused, accepted := 0, 0
	for i := lo; i < hi; i++ {
		L, v := i/256, i%256
		var ct []byte
		if L >= 32 && (L-16)%16 == 0 {
			pt := r.Bytes(L - 16)
			pt[len(pt)-1] = byte(v)
			iv := r.Bytes(16)
			body, _ := ref.CBCEncrypt(c.key, iv, pt)
			ct = append(iv, body...)
		} else {
			if v != 0 {
				continue // length classes that carry no pad octet are tried once
			}
			ct = r.Bytes(L)
		}
		sub := Step{Op: "dec", Cipher: s.Cipher, Src: "raw", Data: ct}
		w.pendingExpand = &sub
		obs, _ := opDec(w, &sub)
		w.pendingExpand = nil
		w.stats.inc("events")
		if obs == "err" {
			refused++
		} else if obs == "ok" {
			accepted++
		}
	}
	w.stats.inc("sweep_dec_table")
	return fmt.Sprintf("refused=%d:accepted=%d", refused, accepted), fmt.Sprintf("%d:dec_sweep", c.keyLen)
}

// opEncFailSweep: clean run to count the reads, then fail at every read index.
func opEncFailSweep(w *World, s *Step) (string, string) {
	c := w.cipher(s.Cipher)
	if c == nil {
		return "nocipher", "nocipher"
	}
	base := RandScript{Seed: 5}
	if s.Rand != nil {
		base = *s.Rand
	}
	base.FailAt = 0
	_, clean := encrypt(c, s.Data, &base)
	reads := clean.RandSt.calls
	modes := []string{"err", "eof", "partial"}
	lo, hi := s.From_, reads*3
	if s.To_ > 0 && s.To_ < hi {
		hi = s.To_
	}
	fired := 0
	for i := lo; i < hi; i++ {
		sc := base
		sc.FailAt = i/3 + 1
		sc.FailMode = modes[i%3]
		sub := Step{Op: "enc", Cipher: s.Cipher, Data: s.Data, Rand: &sc, Ref: -1, Repeat: 1}
		w.pendingExpand = &sub
		obs, _ := opEnc(w, &sub)
		w.pendingExpand = nil
		w.stats.inc("events")
		if obs == "failed" {
			fired++
			w.ext["c10_neg"] = true
		}
		// the object's next call behaves like a fresh object's
		if i%3 == 0 || hi-lo <= 6 {
			ok := Step{Op: "enc", Cipher: s.Cipher, Data: s.Data, Rand: &RandScript{Seed: mix(base.Seed, uint64(i))}, Ref: -1}
			w.pendingExpand = &ok
			opEnc(w, &ok)
			w.pendingExpand = nil
			w.stats.inc("events")
		}
	}
	w.stats.inc("sweep_enc_fail")
	w.stats.add("enc_fail_sweep_reads", int64(reads))
	c10Nontriv(w)
	return fmt.Sprintf("reads=%d:fired=%d", reads, fired), fmt.Sprintf("%d:failsweep:chunk=%d", c.keyLen, base.Chunk)
}

func opNewCryptoSweep(w *World, s *Step) (string, string) {
	r := NewRng(s.SpiI ^ 0x6e63)
	n := 0
	for _, kl := range ref.AESKeyLens {
		for l := 0; l <= 64; l++ {
			sub := Step{Op: "cipher_new", Cipher: 1000 + n, N: kl, Key: r.Bytes(l)}
			w.pendingExpand = &sub
			opCipherNew(w, &sub)
			w.pendingExpand = nil
			w.stats.inc("events")
			n++
		}
	}
	w.ext["c10_neg"] = true
	w.stats.inc("sweep_newcrypto")
	return fmt.Sprint(n), "newcrypto_sweep"
}

func genC10(r *Rng, idx int, tier string) *Scenario {
	sc := &Scenario{}
	nobj := Pick(r, 1, 1, 2, 3)
	keyLens := make([]int, nobj)
	keys := make([][]byte, nobj)
	for i := 0; i < nobj; i++ {
		keyLens[i] = encrSizes[(idx+i)%3]
		keys[i] = r.Bytes(keyLens[i])
		if r.Chance(1, 12) { // keys with structure
			b := Pick[uint8](r, 0x00, 0xff, 0x01, 0x80, r.U8())
			for j := range keys[i] {
				keys[i][j] = b
			}
		}
		if i > 0 {
			switch r.Intn(3) {
			case 0: // a second object holding the same key
				keyLens[i], keys[i] = keyLens[0], keys[0]
			case 1: // same size, another key (the caller may hand it over in the same buffer)
				keyLens[i] = keyLens[0]
				keys[i] = r.Bytes(keyLens[0])
			}
		}
		sc.Steps = append(sc.Steps, Step{Op: "cipher_new", Cipher: i, N: keyLens[i], Key: keys[i], Repeat: r.Intn(2)})
	}
	if r.Chance(1, 8) {
		sc.Steps = append(sc.Steps, Step{Op: "cipher_new", Cipher: 50, N: Pick(r, encrSizes...), Key: r.Bytes(Pick(r, 0, 15, 17, 23, 25, 31, 33, 64))})
	}
	hist := Pick(r, 4, 8, 16, 32, 64)
	maxPt := Pick(r, 16, 64, 300, 4096)
	if tier == "thorough" && idx%20011 == 7 {
		hist, maxPt = 70000, 16 // one object used more than 2^16 times
	}
	nct := 0
	var prevRand *RandScript
	var prevData Hex
	type made struct{ obj, ref int }
	var mades []made
	for i := 0; i < hist; i++ {
		o := r.Intn(nobj)
		switch r.Intn(12) {
		case 0, 1, 2, 3, 4: // encrypt
			st := Step{Op: "enc", Cipher: o, Ref: nct}
			n := r.SmallLen(maxPt)
			if r.Chance(1, 4) {
				n = Pick(r, 0, 1, 15, 16, 17, 31, 32, 33, 255, 256, 257, 4079, 4080, 4081, 4095, 4096)
				if n > maxPt {
					n = maxPt
				}
			}
			if n > 0 {
				st.Data = r.Bytes(n)
			}
			if prevData != nil && r.Chance(1, 5) {
				st.Data = prevData // same plaintext, other stream: the IV must still change
			}
			st.Rand = &RandScript{Seed: r.U64()}
			switch r.Intn(10) {
			case 0, 1:
				st.Rand.Chunk = Pick(r, 1, 2, 3, 5, 7, 15, 17)
			case 2:
				st.Rand.PatReads, st.Rand.PatByte = Pick(r, 1, 2), Pick[uint8](r, 0, 0xff, 0x0f, 0x10)
			case 3:
				if prevRand != nil {
					cp := *prevRand
					st.Rand, st.Repeat = &cp, 1
				}
			case 4: // one failing read somewhere
				st.Rand.FailAt = r.Range(1, 3)
				st.Rand.FailMode = Pick(r, "err", "eof", "partial")
				st.Rand.Chunk = Pick(r, 0, 0, 1, 4)
			}
			prevRand, prevData = st.Rand, st.Data
			sc.Steps = append(sc.Steps, st)
			mades = append(mades, made{o, nct})
			nct++
		case 5, 6: // decrypt own / other object's ciphertext
			if len(mades) == 0 {
				continue
			}
			m := mades[r.Intn(len(mades))]
			src := "own"
			if o != m.obj {
				src = "other"
			}
			sc.Steps = append(sc.Steps, Step{Op: "dec", Cipher: o, Src: src, N: m.obj, Ref: m.ref})
		case 7, 8: // reference-made, any legal padding
			n := r.SmallLen(min(maxPt, 300))
			p := (16 - (n+1)%16) % 16
			if r.Chance(1, 2) {
				p += 16 * r.Intn((255-p)/16+1)
			}
			st := Step{Op: "dec", Cipher: o, Src: "ref", IV: r.Bytes(16)}
			if n > 0 {
				st.Data = r.Bytes(n)
			}
			if p > 0 {
				st.Pad = r.Bytes(p)
			}
			sc.Steps = append(sc.Steps, st)
		case 9, 10: // malformed / arbitrary raw ciphertext
			l := Pick(r, 0, 1, 15, 16, 17, 31, 32, 33, 47, 48, r.Intn(200))
			st := Step{Op: "dec", Cipher: o, Src: "raw"}
			if l > 0 {
				st.Data = r.Bytes(l)
			}
			sc.Steps = append(sc.Steps, st)
		case 11:
			st := Step{Op: "enc_failsweep", Cipher: o, Rand: &RandScript{Seed: r.U64(), Chunk: Pick(r, 0, 0, 1, 3, 7, 16)}}
			if n := r.SmallLen(min(maxPt, 100)); n > 0 {
				st.Data = r.Bytes(n)
			}
			sc.Steps = append(sc.Steps, st)
		}
	}
	if idx%13 == 0 {
		sc.Steps = append(sc.Steps, Step{Op: "dec_sweep", Cipher: 0, SpiI: r.U64()})
	}
	if idx%13 == 6 {
		sc.Steps = append(sc.Steps, Step{Op: "newcrypto_sweep", SpiI: r.U64()})
	}
	return sc
}
