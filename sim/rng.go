package main

import (
	"encoding/hex"
	"encoding/json"
	"fmt"
)

// ---------------------------------------------------------------------------
// PRNG: xoshiro256** seeded through splitmix64. Own implementation so that a
// seed means the same thing on every Go version; nothing here reads a clock or
// the math/rand global.
// ---------------------------------------------------------------------------

func splitmix64(x *uint64) uint64 {
	*x += 0x9e3779b97f4a7c15
	z := *x
	z = (z ^ (z >> 30)) * 0xbf58476d1ce4e5b9
	z = (z ^ (z >> 27)) * 0x94d049bb133111eb
	return z ^ (z >> 31)
}

// mix derives an independent 64-bit seed from (base, i).
func mix(base uint64, i uint64) uint64 {
	x := base ^ (i * 0xd1342543de82ef95) ^ 0x2545f4914f6cdd1d
	a := splitmix64(&x)
	x ^= i
	return a ^ splitmix64(&x)
}

type Rng struct{ s [4]uint64 }

func NewRng(seed uint64) *Rng {
	r := &Rng{}
	x := seed
	for i := range r.s {
		r.s[i] = splitmix64(&x)
	}
	return r
}

func rotl(x uint64, k uint) uint64 { return (x << k) | (x >> (64 - k)) }

func (r *Rng) U64() uint64 {
	res := rotl(r.s[1]*5, 7) * 9
	t := r.s[1] << 17
	r.s[2] ^= r.s[0]
	r.s[3] ^= r.s[1]
	r.s[1] ^= r.s[2]
	r.s[0] ^= r.s[3]
	r.s[2] ^= t
	r.s[3] = rotl(r.s[3], 45)
	return res
}

// Intn returns a value in [0,n). n must be > 0.
func (r *Rng) Intn(n int) int {
	if n <= 0 {
		panic(fmt.Sprintf("Rng.Intn(%d)", n))
	}
	return int(r.U64() % uint64(n))
}

// Range returns a value in [lo,hi].
func (r *Rng) Range(lo, hi int) int { return lo + r.Intn(hi-lo+1) }

func (r *Rng) Bool() bool { return r.U64()&1 == 1 }

// Chance returns true with probability num/den.
func (r *Rng) Chance(num, den int) bool { return r.Intn(den) < num }

func (r *Rng) U8() uint8   { return uint8(r.U64()) }
func (r *Rng) U16() uint16 { return uint16(r.U64()) }
func (r *Rng) U32() uint32 { return uint32(r.U64()) }

func (r *Rng) Fill(b []byte) {
	for i := 0; i < len(b); {
		v := r.U64()
		for j := 0; j < 8 && i < len(b); j++ {
			b[i] = byte(v)
			v >>= 8
			i++
		}
	}
}

func (r *Rng) Bytes(n int) []byte {
	b := make([]byte, n)
	r.Fill(b)
	return b
}

// Pick returns one of the choices.
func Pick[T any](r *Rng, xs ...T) T { return xs[r.Intn(len(xs))] }

// SmallLen returns a length that is usually small, sometimes medium, rarely
// up to max.
func (r *Rng) SmallLen(max int) int {
	if max <= 0 {
		return 0
	}
	switch r.Intn(10) {
	case 0, 1, 2, 3, 4, 5:
		return r.Intn(min(max, 24) + 1)
	case 6, 7, 8:
		return r.Intn(min(max, 200) + 1)
	default:
		return r.Intn(max + 1)
	}
}

// ---------------------------------------------------------------------------
// Hex: []byte that serialises as a hex string, so scenarios stay readable.
// ---------------------------------------------------------------------------

type Hex []byte

func (h Hex) MarshalJSON() ([]byte, error) {
	return json.Marshal(hex.EncodeToString(h))
}

func (h *Hex) UnmarshalJSON(b []byte) error {
	var s string
	if err := json.Unmarshal(b, &s); err != nil {
		return err
	}
	d, err := hex.DecodeString(s)
	if err != nil {
		return err
	}
	if len(d) == 0 {
		*h = nil
	} else {
		*h = d
	}
	return nil
}

func clone(b []byte) []byte {
	if b == nil {
		return nil
	}
	c := make([]byte, len(b))
	copy(c, b)
	return c
}

// fnv1a64 is used for all hashes that end up in evidence or determinism logs.
func fnv1a(h uint64, b []byte) uint64 {
	if h == 0 {
		h = 0xcbf29ce484222325
	}
	for _, c := range b {
		h ^= uint64(c)
		h *= 0x100000001b3
	}
	return h
}

func fnvStr(h uint64, s string) uint64 { return fnv1a(h, []byte(s)) }
