package main

import (
	"bytes"
	"fmt"

	"github.com/free5gc/ike/message"

	"ikesim/ref"
)

// ---------------------------------------------------------------------------
// C06 — SK payload follows RFC 7296 §3.14 and interoperates with an
// independent peer, in both directions.
// ---------------------------------------------------------------------------

func init() {
	ops["ref_send"] = opRefSend
	sendHooks["C06"] = c06Send
	deliverHooks["C06"] = c06Deliver
	props["C06"] = &PropDef{
		ID: "C06", Level: "exploration",
		Gen:   genC06,
		Count: map[string]int{"quick": 300000, "thorough": 5000000},
		Rule: "scenario = one SA (9 suites stratified, long-lived real key objects) + 2..12 messages. Direction A: the real endpoint protects a message " +
			"of the encodable domain (IV/padding through SimRand scripts); the reference peer, holding the raw keys, checks the §3.14 layout: both length " +
			"fields final, header names 46, ICV = truncated HMAC under the SENDER-direction integrity key over header..ciphertext, AES-CBC under the " +
			"sender-direction cipher key, legal pad length, SK next-payload = first inner type, chain of inner payloads with the original types/extents, " +
			"field-by-field equality for the payload kinds the reference decodes, library plain decoder as yardstick for SA/EAP. Direction B: the reference " +
			"peer builds the datagram with any IV, ANY legal pad length 0..255 and arbitrary pad octets; the real endpoint in the opposite role must accept " +
			"it and decode the original list. Non-trivial = non-empty inner list or non-minimal padding; distinct = distinct abstract traces.",
		Components: defaultComponents,
	}
}

var kindType = map[string]uint8{
	"SA": 33, "KE": 34, "IDi": 35, "IDr": 36, "CERT": 37, "CERTREQ": 38, "AUTH": 39, "Nonce": 40,
	"N": 41, "D": 42, "V": 43, "TSi": 44, "TSr": 45, "SK": 46, "CP": 47, "EAP": 48,
}

// toRef maps a spec payload to the reference's own payload value; ok=false for
// the kinds the reference does not implement (SA, EAP).
func toRef(p *PayloadSpec) (*ref.Payload, bool) {
	t := kindType[p.Kind]
	if !ref.CanCodec(t) || p.Kind == "EAP" {
		return nil, false
	}
	rp := &ref.Payload{Type: t, A: p.A, B: p.B, Data: p.Data, SPI: p.SPI, SPISize: p.SPISize, SPIs: p.SPIs}
	for _, ts := range p.TS {
		rp.TS = append(rp.TS, ref.TS{Type: ts.Type, Proto: ts.Proto, SPort: ts.SPort, EPort: ts.EPort, SAddr: ts.SAddr, EAddr: ts.EAddr})
	}
	for _, a := range p.Attrs {
		rp.Attrs = append(rp.Attrs, ref.CPAttr{Type: a.Type, Value: a.Value})
	}
	return rp, true
}

func refEqual(a, b *ref.Payload) string {
	switch {
	case a.A != b.A || a.B != b.B:
		return "scalar fields"
	case !bytes.Equal(a.Data, b.Data):
		return "data"
	case !bytes.Equal(a.SPI, b.SPI):
		return "spi"
	case a.SPISize != b.SPISize || len(a.SPIs) != len(b.SPIs):
		return "delete spis"
	case len(a.TS) != len(b.TS):
		return "selector count"
	case len(a.Attrs) != len(b.Attrs):
		return "attribute count"
	}
	for i := range a.SPIs {
		if a.SPIs[i] != b.SPIs[i] {
			return "delete spi value"
		}
	}
	for i := range a.TS {
		x, y := a.TS[i], b.TS[i]
		if x.Type != y.Type || x.Proto != y.Proto || x.SPort != y.SPort || x.EPort != y.EPort || !bytes.Equal(x.SAddr, y.SAddr) || !bytes.Equal(x.EAddr, y.EAddr) {
			return "selector"
		}
	}
	for i := range a.Attrs {
		if a.Attrs[i].Type != b.Attrs[i].Type || !bytes.Equal(a.Attrs[i].Value, b.Attrs[i].Value) {
			return "attribute"
		}
	}
	return ""
}

// refSADiff compares the reference peer's parse of an SA payload with the spec. Transforms
// appear on the wire grouped by type in the order encr, prf, integ, dh, esn.
func refSADiff(p *PayloadSpec, got []ref.SAProposal) string {
	if len(got) != len(p.Proposals) {
		return "proposal count"
	}
	for i, pr := range p.Proposals {
		g := got[i]
		if g.Num != pr.Num || g.Proto != pr.Proto || !bytes.Equal(g.SPI, pr.SPI) {
			return "proposal header"
		}
		var want []TransformSpec
		for _, l := range [][]TransformSpec{pr.Encr, pr.Prf, pr.Integ, pr.DH, pr.ESN} {
			want = append(want, l...)
		}
		if len(want) != len(g.Transforms) {
			return "transform count"
		}
		for j, t := range want {
			x := g.Transforms[j]
			if x.Type != t.Type || x.ID != t.ID || x.HasAttr != t.HasAttr {
				return "transform header"
			}
			if t.HasAttr && (x.TV != t.TV || x.AType != t.AType || (t.TV && x.AValue != t.AValue) || (!t.TV && !bytes.Equal(x.AVar, t.AVar))) {
				return "transform attribute"
			}
		}
	}
	return ""
}

func dirKeys(sa *SA, from string) (enc, integ []byte) {
	if from == "I" {
		return sa.Keys.SKei, sa.Keys.SKai
	}
	return sa.Keys.SKer, sa.Keys.SKar
}

// Direction A: the reference peer examines what the library protected.
func c06Send(c *sendCtx) {
	w, s, sa := c.w, c.s, c.sa
	if s.NilKey || sa == nil {
		return
	}
	if c.res.class() != "ok" {
		return // C01's business
	}
	enc, ik := dirKeys(sa, s.From)
	parts, err := ref.Unprotect(c.out, enc, sa.Suite.refInteg(), ik)
	if err != nil {
		w.violate("reference_peer_rejects", normMsg(err.Error()), "the independent peer cannot unprotect a message protected by the %s endpoint (%s): %v", s.From, sa.Suite, err)
		return
	}
	h := parts.Header
	m := s.Msg
	if h.SPIi != m.ISPI || h.SPIr != m.RSPI || h.Major != m.Major || h.Minor != m.Minor || h.Exchange != m.Exch || h.Flags != m.Flags || h.MessageID != m.MsgID {
		w.violate("cleartext_header_wrong", "header", "cleartext header of the protected message differs from the message's header fields: %+v vs %s", h, jsonOf(m))
	}
	wantFirst := uint8(0)
	if len(m.Payloads) > 0 {
		wantFirst = kindType[m.Payloads[0].Kind]
	}
	if parts.FirstInner != wantFirst {
		w.violate("sk_next_payload_wrong", fmt.Sprint(wantFirst), "SK next-payload field is %d, first inner payload is of type %d", parts.FirstInner, wantFirst)
	}
	chain, err := ref.WalkChain(parts.FirstInner, parts.Inner)
	if err != nil {
		w.violate("inner_chain_malformed", normMsg(err.Error()), "inner payload chain does not parse: %v", err)
		return
	}
	if len(chain) != len(m.Payloads) {
		w.violate("inner_chain_wrong", "count", "inner chain has %d payloads, message has %d", len(chain), len(m.Payloads))
		return
	}
	for i, rp := range chain {
		p := &m.Payloads[i]
		if rp.Type != kindType[p.Kind] {
			w.violate("inner_chain_wrong", "type", "inner payload %d has type %d, message has %s", i, rp.Type, p.Kind)
			return
		}
		if p.Kind == "SA" {
			props, err := ref.DecodeSA(rp.Body)
			if err != nil {
				w.violate("inner_payload_wrong", "SA/"+normMsg(err.Error()), "the independent peer cannot parse the inner SA payload: %v", err)
				return
			}
			if d := refSADiff(p, props); d != "" {
				w.violate("inner_payload_wrong", "SA/"+d, "inner SA payload parsed by the independent peer differs from the message (%s)", d)
				return
			}
			w.stats.inc("c06_sa_payloads_parsed_by_reference")
		}
		if want, ok := toRef(p); ok {
			got, err := ref.DecodeBody(rp.Type, rp.Body)
			if err != nil {
				w.violate("inner_payload_wrong", p.Kind, "reference cannot decode inner %s payload: %v", p.Kind, err)
				return
			}
			if d := refEqual(want, got); d != "" {
				w.violate("inner_payload_wrong", p.Kind+"/"+d, "inner %s payload decoded by the reference differs from the message (%s)", p.Kind, d)
				return
			}
		}
	}
	// yardstick for the kinds the reference does not decode: the library's plain decoder (C03/C05's subject, not this one's)
	var cont message.IKEPayloadContainer
	r := &callResult{}
	guard(r, func() { r.Err = cont.Decode(parts.FirstInner, clone(parts.Inner)) })
	if r.class() == "ok" {
		if d := payloadsDiff(m.Payloads, extractPayloads(cont)); d != "" {
			w.violate("inner_payload_wrong", "plain:"+d, "inner chain decoded by the plain decoder differs from the message at %s", d)
		}
	}
	if len(m.Payloads) > 0 {
		w.nontriv = true
	}
	w.stats.inc("c06_dirA_checked")
	if parts.PadLen == 15 {
		w.stats.inc("probe_pad_length_15_full_block")
	}
}

// Direction B: the reference peer builds the datagram.
func opRefSend(w *World, s *Step) (string, string) {
	sa := w.sa(s.SA)
	if sa == nil || s.Msg == nil {
		w.stats.inc("noop_missing_sa")
		return "nosa", "nosa"
	}
	m := s.Msg
	var types []uint8
	var bodies [][]byte
	for i := range m.Payloads {
		p := &m.Payloads[i]
		types = append(types, kindType[p.Kind])
		if rp, ok := toRef(p); ok {
			b, err := ref.EncodeBody(rp)
			if err != nil {
				w.stats.inc("ref_encode_failed")
				return "refencerr", "refencerr"
			}
			bodies = append(bodies, b)
			continue
		}
		// SA / EAP: the library's plain marshaller is the yardstick
		var b []byte
		r := &callResult{}
		guard(r, func() {
			pl, err := buildPayload(p)
			if err != nil {
				r.Err = err
				return
			}
			b, r.Err = pl.Marshal()
		})
		if r.class() != "ok" {
			w.stats.inc("yardstick_marshal_failed")
			return "marshalerr", "marshalerr"
		}
		bodies = append(bodies, b)
	}
	// RFC 7296 §2.5/§3.2: a conformant peer may include payloads this implementation does not know, with the
	// critical flag clear; they are skipped. The reference peer inserts one at position s.Ref-1 (0 = none).
	if s.Ref > 0 && s.Ref-1 <= len(types) {
		at := s.Ref - 1
		ut := uint8(49 + s.SpiR%200)
		body := NewRng(s.SpiR ^ 0x130).Bytes(int(s.SpiR>>8) % 24)
		types = append(types[:at:at], append([]uint8{ut}, types[at:]...)...)
		bodies = append(bodies[:at:at], append([][]byte{body}, bodies[at:]...)...)
		w.stats.inc("probe_ref_message_with_unknown_noncritical_payload")
		if at == 0 {
			w.stats.inc("probe_unknown_payload_first_inside_sk")
		}
	}
	inner, first, err := ref.EncodeChain(types, bodies)
	if err != nil {
		w.stats.inc("ref_encode_failed")
		return "refencerr", "refencerr"
	}
	if s.Ref > 0 {
		// attribution: skipping unknown payloads is C13's business; the yardstick is the library's PLAIN chain
		// decoder on the same inner octets. Only if that accepts them is a refusal of the protected form C06's.
		var cont message.IKEPayloadContainer
		r := &callResult{}
		guard(r, func() { r.Err = cont.Decode(first, clone(inner)) })
		if r.class() != "ok" || payloadsDiff(m.Payloads, extractPayloads(cont)) != "" {
			w.stats.inc("c06_unknown_payload_yardstick_declined")
			return "yardstick", "yardstick"
		}
	}
	p0 := (16 - (len(inner)+1)%16) % 16
	p := p0 + 16*s.N
	for p > 255 {
		p -= 16
	}
	pool := NewRng(s.SpiI ^ 0x9ad)
	pad := pool.Bytes(p)
	if len(s.Pad) > 0 { // scripted pad octets (repeated)
		for i := range pad {
			pad[i] = s.Pad[i%len(s.Pad)]
		}
	}
	iv := s.IV
	if len(iv) != 16 {
		iv = pool.Bytes(16)
	}
	enc, ik := dirKeys(sa, s.From)
	h := ref.Header{SPIi: m.ISPI, SPIr: m.RSPI, Major: m.Major, Minor: m.Minor, Exchange: m.Exch, Flags: m.Flags, MessageID: m.MsgID}
	d, err := ref.Protect(h, first, inner, iv, pad, enc, sa.Suite.refInteg(), ik)
	if err != nil {
		w.stats.inc("ref_protect_skipped_too_large")
		return "toolarge", "toolarge"
	}
	w.dgrams[s.Dgram] = &Dgram{SA: s.SA, From: s.From, Bytes: d, Spec: m, Genuine: true}
	w.ext[fmt.Sprintf("refmade%d", s.Dgram)] = p
	w.stats.inc("ref_messages_built")
	if p >= 16 {
		w.stats.inc("probe_non_minimal_padding")
	}
	if p == 255 || p >= 240 {
		w.stats.inc("probe_pad_length_ge_240")
	}
	return fmt.Sprintf("ok:%x", fnv1a(0, d)), fmt.Sprintf("%s:%s:%s:pad%d", sa.Suite, s.From, m.kinds(), p/16)
}

func c06Deliver(c *deliverCtx) {
	w, d := c.w, c.d
	p, refMade := w.ext[fmt.Sprintf("refmade%d", c.s.Dgram)].(int)
	if !refMade || c.faulty || c.sa == nil || c.toRole == d.From {
		return
	}
	_ = p
	switch c.res.class() {
	case "panic":
		w.violate("ref_message_panics", panicKey(c.res), "DecodeDecrypt panicked on a well-formed message built by the independent peer (pad length %d): %s", p, c.res.Panic)
		return
	case "err":
		w.violate("ref_message_rejected", errKey(c.res.Err), "a well-formed message built by the independent peer (%s, pad length %d, %d inner payloads) is rejected: %v",
			c.sa.Suite, p, len(d.Spec.Payloads), c.res.Err)
		return
	}
	got := extract(c.msg)
	if diff := specDiff(d.Spec, got); diff != "" {
		w.violate("ref_message_misdecoded", diff, "message built by the independent peer decodes differently at %s:\n sent %s\n got  %s", diff, jsonOf(d.Spec), jsonOf(got))
		return
	}
	if len(d.Spec.Payloads) > 0 || p >= 16 {
		w.nontriv = true
	}
	w.stats.inc("c06_dirB_checked")
}

func genC06(r *Rng, idx int, tier string) *Scenario {
	sc := &Scenario{}
	su := suiteByIndex(idx)
	su.Prf, su.DH = Pick(r, prfNames...), 2
	sc.Steps = append(sc.Steps, genSAStep(r, 0, su, "direct", "direct", "kdf"))
	cfg := swarmGenCfg(r, maxInnerProtected(su.refInteg().ICVLen)-256)
	n := r.Range(2, 12)
	if cfg.SizeClass == 2 {
		n = 2
	}
	var prev *RandScript
	for i := 0; i < n; i++ {
		from := Pick(r, "I", "R")
		if i == 0 {
			from = []string{"I", "R"}[(idx/9)%2]
		}
		if r.Bool() {
			// direction A
			st := Step{Op: "send", SA: 0, Dgram: i, From: from, Msg: genMsg(r, &cfg), Rand: adversarialRand(r, prev)}
			prev = st.Rand
			if r.Chance(1, 16) {
				st.Rand = &RandScript{Seed: r.U64(), FailAt: r.Range(1, 2), FailMode: Pick(r, "err", "eof", "partial")}
				st.Retry = true
			}
			sc.Steps = append(sc.Steps, st)
		} else {
			st := Step{Op: "ref_send", SA: 0, Dgram: i, From: from, Msg: genMsg(r, &cfg), SpiI: r.U64()}
			switch r.Intn(6) {
			case 0, 1:
				st.N = 0
			case 2:
				st.N = 15
			default:
				st.N = r.Intn(16)
			}
			if r.Chance(1, 4) {
				st.Pad = Hex{Pick[uint8](r, 0, 0xff, 0x0f, 0x10, 0x01)}
			}
			if r.Chance(1, 6) {
				st.IV = bytes.Repeat([]byte{Pick[uint8](r, 0, 0xff)}, 16)
			}
			if r.Chance(1, 5) || (len(st.Msg.Payloads) == 0 && r.Bool()) {
				st.Ref = 1 + r.Intn(len(st.Msg.Payloads)+1)
				if r.Bool() {
					st.Ref = 1
				}
				st.SpiR = r.U64()
			}
			sc.Steps = append(sc.Steps, st)
			sc.Steps = append(sc.Steps, Step{Op: "deliver", Dgram: i, Rx: genRx(r), Obj: Pick(r, "long", "long", "twin")})
		}
	}
	return sc
}
