package main

import (
	"crypto/cipher"
	"fmt"
	"hash"
	"runtime"
	"strings"
	"sync"
	"sync/atomic"

	"github.com/free5gc/ike"
	"github.com/free5gc/ike/message"
	"github.com/free5gc/ike/security"
	ikeCrypto "github.com/free5gc/ike/security/IKECrypto"
	"github.com/free5gc/ike/security/dh"
	"github.com/free5gc/ike/security/encr"
	"github.com/free5gc/ike/security/integ"
	"github.com/free5gc/ike/security/prf"

	"ikesim/ref"
)

// ---------------------------------------------------------------------------
// Suites. The strings are the library's public algorithm names (its API); the
// lengths the harness relies on come from ref (RFC tables), never from the
// library's Get*Length().
// ---------------------------------------------------------------------------

type Suite struct {
	Encr  int    `json:"encr"`  // AES key octets 16/24/32
	Integ string `json:"integ"` // md5 sha1 sha256
	Prf   string `json:"prf"`   // md5 sha1 sha256
	DH    int    `json:"dh"`    // 2 or 14
}

func (s Suite) String() string {
	return fmt.Sprintf("aes%d/%s/prf_%s/modp%d", s.Encr*8, s.Integ, s.Prf, s.DH)
}

func (s Suite) refInteg() ref.Integ {
	switch s.Integ {
	case "md5":
		return ref.IntegMD5
	case "sha1":
		return ref.IntegSHA1
	}
	return ref.IntegSHA256
}

func (s Suite) refPrf() ref.Prf {
	switch s.Prf {
	case "md5":
		return ref.PrfMD5
	case "sha1":
		return ref.PrfSHA1
	}
	return ref.PrfSHA256
}

func libEncr(n int) encr.ENCRType   { return encr.StrToType(fmt.Sprintf("ENCR_AES_CBC_%d", n*8)) }
func libEncrK(n int) encr.ENCRKType { return encr.StrToKType(fmt.Sprintf("ENCR_AES_CBC_%d", n*8)) }
func libInteg(s string) integ.INTEGType {
	switch s {
	case "md5":
		return integ.StrToType("AUTH_HMAC_MD5_96")
	case "sha1":
		return integ.StrToType("AUTH_HMAC_SHA1_96")
	case "sha256":
		return integ.StrToType("AUTH_HMAC_SHA2_256_128")
	}
	return nil
}

func libIntegK(s string) integ.INTEGKType {
	switch s {
	case "md5":
		return integ.StrToKType("AUTH_HMAC_MD5_96")
	case "sha1":
		return integ.StrToKType("AUTH_HMAC_SHA1_96")
	case "sha256":
		return integ.StrToKType("AUTH_HMAC_SHA2_256_128")
	}
	return nil
}

func libPrf(s string) prf.PRFType {
	switch s {
	case "md5":
		return prf.StrToType("PRF_HMAC_MD5")
	case "sha1":
		return prf.StrToType("PRF_HMAC_SHA1")
	case "sha256":
		return prf.StrToType("PRF_HMAC_SHA2_256")
	}
	return nil
}

func libDH(g int) dh.DHType {
	switch g {
	case 2:
		return dh.StrToType("DH_1024_BIT_MODP")
	case 14:
		return dh.StrToType("DH_2048_BIT_MODP")
	}
	return nil
}

var (
	encrSizes  = []int{16, 24, 32}
	integNames = []string{"md5", "sha1", "sha256"}
	prfNames   = []string{"md5", "sha1", "sha256"}
	dhGroups   = []int{2, 14}
)

// suiteByIndex stratifies: the 9 (encr,integ) suites first, then prf, then dh.
func suiteByIndex(i int) Suite {
	return Suite{
		Encr:  encrSizes[i%3],
		Integ: integNames[(i/3)%3],
		Prf:   prfNames[(i/9)%3],
		DH:    dhGroups[(i/27)%2],
	}
}

// ---------------------------------------------------------------------------
// Raw keys and key objects
// ---------------------------------------------------------------------------

type RawKeys struct {
	SKd  Hex `json:"d"`
	SKai Hex `json:"ai"`
	SKar Hex `json:"ar"`
	SKei Hex `json:"ei"`
	SKer Hex `json:"er"`
	SKpi Hex `json:"pi"`
	SKpr Hex `json:"pr"`
}

func genRawKeys(r *Rng, s Suite) *RawKeys {
	p, ig := s.refPrf(), s.refInteg()
	return &RawKeys{
		SKd: r.Bytes(p.KeyLen), SKai: r.Bytes(ig.KeyLen), SKar: r.Bytes(ig.KeyLen),
		SKei: r.Bytes(s.Encr), SKer: r.Bytes(s.Encr), SKpi: r.Bytes(p.KeyLen), SKpr: r.Bytes(p.KeyLen),
	}
}

// newKeyObj builds a key object from raw keys the way the repository's own
// tests do (Init / NewCrypto per key), bypassing the KDF.
func newKeyObj(s Suite, k *RawKeys) (obj *security.IKESAKey, err error) {
	defer func() {
		if p := recover(); p != nil {
			obj, err = nil, fmt.Errorf("panic building key object: %v", p)
		}
	}()
	o := &security.IKESAKey{
		DhInfo: libDH(s.DH), EncrInfo: libEncr(s.Encr), IntegInfo: libInteg(s.Integ), PrfInfo: libPrf(s.Prf),
		SK_d: clone(k.SKd), SK_ai: clone(k.SKai), SK_ar: clone(k.SKar), SK_ei: clone(k.SKei),
		SK_er: clone(k.SKer), SK_pi: clone(k.SKpi), SK_pr: clone(k.SKpr),
	}
	if o.DhInfo == nil || o.EncrInfo == nil || o.IntegInfo == nil || o.PrfInfo == nil {
		return nil, fmt.Errorf("library does not know suite %s", s)
	}
	o.Prf_d = o.PrfInfo.Init(o.SK_d)
	o.Prf_i = o.PrfInfo.Init(o.SK_pi)
	o.Prf_r = o.PrfInfo.Init(o.SK_pr)
	o.Integ_i = o.IntegInfo.Init(o.SK_ai)
	o.Integ_r = o.IntegInfo.Init(o.SK_ar)
	if o.Encr_i, err = o.EncrInfo.NewCrypto(o.SK_ei); err != nil {
		return nil, err
	}
	if o.Encr_r, err = o.EncrInfo.NewCrypto(o.SK_er); err != nil {
		return nil, err
	}
	if o.Prf_d == nil || o.Prf_i == nil || o.Prf_r == nil || o.Integ_i == nil || o.Integ_r == nil {
		return nil, fmt.Errorf("library refused an RFC-length key for suite %s", s)
	}
	return o, nil
}

func rawKeysOf(o *security.IKESAKey) *RawKeys {
	return &RawKeys{
		SKd: clone(o.SK_d), SKai: clone(o.SK_ai), SKar: clone(o.SK_ar), SKei: clone(o.SK_ei),
		SKer: clone(o.SK_er), SKpi: clone(o.SK_pi), SKpr: clone(o.SK_pr),
	}
}

// ---------------------------------------------------------------------------
// Spies: delegating wrappers installed in the public interface-typed fields.
// ---------------------------------------------------------------------------

type spyEvent struct {
	Obj  string // Encr_i Encr_r Integ_i Integ_r Prf_d ...
	Call string // Encrypt Decrypt Reset Write Sum
	N    int
}

// spyLog is safe to use from goroutines the library might start itself.
type spyLog struct {
	mu sync.Mutex
	ev []spyEvent
}

func (l *spyLog) add(obj, call string, n int) {
	if l != nil {
		l.mu.Lock()
		l.ev = append(l.ev, spyEvent{obj, call, n})
		l.mu.Unlock()
	}
}

func (l *spyLog) count(call string) int {
	n := 0
	l.mu.Lock()
	defer l.mu.Unlock()
	for _, e := range l.ev {
		if e.Call == call {
			n++
		}
	}
	return n
}

func (l *spyLog) String() string {
	l.mu.Lock()
	defer l.mu.Unlock()
	var sb strings.Builder
	for i, e := range l.ev {
		if i > 0 {
			sb.WriteByte(' ')
		}
		fmt.Fprintf(&sb, "%s.%s(%d)", e.Obj, e.Call, e.N)
	}
	return sb.String()
}

type spyCrypto struct {
	name  string
	inner ikeCrypto.IKECrypto
	log   *atomic.Pointer[spyLog]
}

func (s *spyCrypto) Encrypt(p []byte) ([]byte, error) {
	s.log.Load().add(s.name, "Encrypt", len(p))
	schedYield("spy")
	return s.inner.Encrypt(p)
}

func (s *spyCrypto) Decrypt(c []byte) ([]byte, error) {
	s.log.Load().add(s.name, "Decrypt", len(c))
	schedYield("spy")
	return s.inner.Decrypt(c)
}

type spyHash struct {
	name  string
	inner hash.Hash
	log   *atomic.Pointer[spyLog]
}

func (s *spyHash) Write(p []byte) (int, error) {
	s.log.Load().add(s.name, "Write", len(p))
	schedYield("spy")
	return s.inner.Write(p)
}
func (s *spyHash) Sum(b []byte) []byte {
	s.log.Load().add(s.name, "Sum", len(b))
	return s.inner.Sum(b)
}
func (s *spyHash) Reset() {
	s.log.Load().add(s.name, "Reset", 0)
	s.inner.Reset()
}
func (s *spyHash) Size() int      { return s.inner.Size() }
func (s *spyHash) BlockSize() int { return s.inner.BlockSize() }

// spyBlock wraps the exported Block field of the stock AES-CBC object: the object keeps its concrete
// type (a library that treats its own cipher type specially still goes through the spy).
type spyBlock struct {
	name  string
	inner cipher.Block
	log   *atomic.Pointer[spyLog]
}

func (b *spyBlock) BlockSize() int { return b.inner.BlockSize() }
func (b *spyBlock) Encrypt(dst, src []byte) {
	b.inner.Encrypt(dst, src)
}
func (b *spyBlock) Decrypt(dst, src []byte) {
	b.log.Load().add(b.name, "Decrypt", len(src))
	b.inner.Decrypt(dst, src)
}

func spyCipher(name string, c ikeCrypto.IKECrypto, log *atomic.Pointer[spyLog], viaBlock bool) ikeCrypto.IKECrypto {
	if stock, ok := c.(*encr.EncrAesCbcCrypto); ok && viaBlock && stock.Block != nil {
		return &encr.EncrAesCbcCrypto{Block: &spyBlock{name, stock.Block, log}, Iv: stock.Iv, Padding: stock.Padding}
	}
	return &spyCrypto{name, c, log}
}

// spied wraps every security object of o with spies that log into *log.
// The wrapping is itself long-lived, so histories on the inner objects are kept.
func spied(o *security.IKESAKey, log *atomic.Pointer[spyLog], viaBlock bool) *security.IKESAKey {
	c := *o
	// viaBlock: a Block-level spy inside the stock cipher type instead of an interface-level wrapper
	c.Encr_i = spyCipher("Encr_i", o.Encr_i, log, viaBlock)
	c.Encr_r = spyCipher("Encr_r", o.Encr_r, log, viaBlock)
	c.Integ_i = &spyHash{"Integ_i", o.Integ_i, log}
	c.Integ_r = &spyHash{"Integ_r", o.Integ_r, log}
	c.Prf_d = &spyHash{"Prf_d", o.Prf_d, log}
	c.Prf_i = &spyHash{"Prf_i", o.Prf_i, log}
	c.Prf_r = &spyHash{"Prf_r", o.Prf_r, log}
	return &c
}

// ---------------------------------------------------------------------------
// Guarded calls into the library: every call runs under recover.
// ---------------------------------------------------------------------------

type callResult struct {
	Err    error
	Panic  string // panic value, "" if none
	Frame  string // top library frame of the panic
	RandSt *randState
	Spy    *spyLog
}

func (c *callResult) class() string {
	switch {
	case c.Panic != "":
		return "panic"
	case c.Err != nil:
		return "err"
	}
	return "ok"
}

func libFrame() string {
	pcs := make([]uintptr, 64)
	n := runtime.Callers(3, pcs)
	frames := runtime.CallersFrames(pcs[:n])
	for {
		f, more := frames.Next()
		if strings.Contains(f.Function, "github.com/free5gc/ike") {
			fn := f.Function[strings.Index(f.Function, "github.com/free5gc/ike")+len("github.com/free5gc/ike"):]
			fn = strings.TrimPrefix(fn, "/")
			fn = strings.TrimPrefix(fn, ".")
			return fn
		}
		if !more {
			break
		}
	}
	return "?"
}

// errSink collects the error VALUES returned by the library during one C18 task, so that they can
// be read again when the task ends (an error must keep saying what it said when it was returned).
var errSink *[]error

func noteErr(err error) {
	if err == nil {
		return
	}
	if simRand.parallel.Load() {
		if h := simRand.byGoid[goid()]; h != nil && h.errs != nil {
			*h.errs = append(*h.errs, err)
		}
		return
	}
	if errSink != nil {
		*errSink = append(*errSink, err)
	}
}

func errsDigest(errs []error) string {
	h := uint64(0)
	for _, e := range errs {
		// message lines only: embedded stack traces name harness frames, which differ between run modes
		for _, l := range strings.Split(e.Error(), "\n") {
			if strings.HasPrefix(l, "\t") || (!strings.Contains(l, " ") && strings.Contains(l, ".")) {
				continue
			}
			h = fnvStr(h, l)
		}
		h = fnv1a(h, []byte{0})
	}
	return fmt.Sprintf("errors_reread_at_task_end:n=%d:%016x", len(errs), h)
}

func guard(res *callResult, f func()) {
	defer func() {
		if p := recover(); p != nil {
			if _, ok := p.(schedAbort); ok {
				panic(p)
			}
			res.Panic = fmt.Sprint(p)
			res.Frame = libFrame()
		}
	}()
	f()
	noteErr(res.Err)
}

// quiesce waits until goroutines started during a library call have finished
// (quiescence detection: the library is not supposed to start any; if a changed
// tree does, their effects are observed before the oracles run, deterministically).
func quiesce(base int) {
	if simRand.parallel.Load() || schedHook != nil {
		return // C18 runs own goroutines; the count means nothing there
	}
	for i := 0; i < 200000 && runtime.NumGoroutine() > base; i++ {
		runtime.Gosched()
	}
}

func roleOf(s string) message.Role {
	if s == "I" {
		return message.Role_Initiator
	}
	return message.Role_Responder
}

func other(s string) string {
	if s == "I" {
		return "R"
	}
	return "I"
}

// protect runs EncodeEncrypt under a rand script.
func protect(msg *message.IKEMessage, key *security.IKESAKey, role string, rs *RandScript) ([]byte, *callResult) {
	res := &callResult{}
	sc := RandScript{Seed: 1}
	if rs != nil {
		sc = *rs
	}
	res.RandSt = simRand.begin(sc)
	var out []byte
	base := runtime.NumGoroutine()
	guard(res, func() {
		out, res.Err = ike.EncodeEncrypt(msg, key, roleOf(role))
	})
	quiesce(base)
	simRand.end()
	return out, res
}

// RxOpts describes the receive path of one delivery.
type RxOpts struct {
	PreHdr bool `json:"prehdr,omitempty"` // receiver pre-parses the header from the same bytes
	Hdr28  bool `json:"hdr28,omitempty"`
	// Hdr28: ... from the first 28 octets only (a receiver that peeks at the header before reading the rest)
	// HdrOther: header parsed from ANOTHER buffer holding the datagram, which is reused before DecodeDecrypt runs on a private copy
	HdrOther bool `json:"hdr_other,omitempty"`
	// WrongFirst: the receiver has two candidate SAs for the datagram (rekey in progress, SPI collision) and tries
	// the one with other keys first, on the same buffer; that attempt is refused, then the right SA is tried.
	WrongFirst bool   `json:"wrong_first,omitempty"`
	Spare      int    `json:"spare,omitempty"`    // spare capacity behind the datagram (poisoned)
	Scribble   string `json:"scribble,omitempty"` // "", "complement", "random", "zero"
	Hold       int    `json:"hold,omitempty"`
	// Redeliver: the same receive buffer (not a copy) is presented a second time,
	// to a decoder with its own key object, as a retrying or second receiver would.
	Redeliver bool `json:"redeliver,omitempty"`
}

// rxBuffer copies d into a receive buffer: exact capacity or with poisoned spare.
func rxBuffer(d []byte, spare int) []byte {
	if spare <= 0 {
		b := make([]byte, len(d))
		copy(b, d)
		return b[:len(d):len(d)]
	}
	b := make([]byte, len(d)+spare)
	copy(b, d)
	for i := len(d); i < len(b); i++ {
		b[i] = 0xA5 ^ byte(i)
	}
	return b[:len(d)]
}

// unprotect runs the receive path: optional ParseHeader on the same bytes, then
// DecodeDecrypt. A datagram whose header does not parse is delivered with a nil
// header.
func unprotect(buf []byte, key *security.IKESAKey, role string, prehdr bool, hdr28 ...bool) (*message.IKEMessage, *callResult) {
	hdrOther := len(hdr28) > 1 && hdr28[1]
	res := &callResult{}
	res.RandSt = simRand.begin(RandScript{Seed: 2})
	var out *message.IKEMessage
	base := runtime.NumGoroutine()
	defer quiesce(base)
	guard(res, func() {
		var h *message.IKEHeader
		if prehdr {
			var err error
			src := buf
			if len(hdr28) > 0 && hdr28[0] && len(buf) >= 28 {
				src = rxBuffer(buf[:28], 0)
			}
			if hdrOther {
				src = rxBuffer(src, 0) // the socket buffer the header was parsed from ...
			}
			h, err = message.ParseHeader(src)
			if err != nil {
				h = nil
			}
			if hdrOther {
				for i := range src { // ... has been reused for the next datagram by the time the copy is decoded
					src[i] ^= 0xff
				}
			}
		}
		out, res.Err = ike.DecodeDecrypt(buf, h, key, roleOf(role))
	})
	simRand.end()
	return out, res
}

func errStr(err error) string {
	if err == nil {
		return ""
	}
	s := err.Error()
	if len(s) > 200 {
		s = s[:200]
	}
	return s
}
