package main

import "fmt"

// ---------------------------------------------------------------------------
// Message generation over the encodable domain. All choices come from the Rng
// handed in (which derives from VERIF_SEED); nothing else is consulted.
// ---------------------------------------------------------------------------

type GenCfg struct {
	MaxPayloads int
	SizeClass   int // 0 tiny, 1 typical, 2 near the 16-bit limit
	MaxInner    int // upper bound for the encoded inner payload chain
	Kinds       []string
	Corner      int // percent chance per eligible field of a boundary value
}

var allKinds = []string{"SA", "KE", "IDi", "IDr", "CERT", "CERTREQ", "AUTH", "Nonce", "N", "D", "V", "TSi", "TSr", "CP", "EAP"}

// swarmGenCfg draws one per-scenario generator configuration.
func swarmGenCfg(r *Rng, maxInner int) GenCfg {
	c := GenCfg{MaxInner: maxInner, Corner: Pick(r, 0, 2, 5, 5, 10, 25)}
	switch r.Intn(20) {
	case 0:
		c.SizeClass = 2
	case 1, 2, 3, 4, 5:
		c.SizeClass = 0
	default:
		c.SizeClass = 1
	}
	c.MaxPayloads = Pick(r, 1, 2, 3, 4, 6, 10)
	// swarm: random subset of kinds (at least 3), sometimes all
	if r.Chance(1, 3) {
		c.Kinds = allKinds
	} else {
		for _, k := range allKinds {
			if r.Chance(1, 2) {
				c.Kinds = append(c.Kinds, k)
			}
		}
		for len(c.Kinds) < 3 {
			c.Kinds = append(c.Kinds, Pick(r, allKinds...))
		}
	}
	return c
}

func (c *GenCfg) dataMax() int {
	switch c.SizeClass {
	case 0:
		return 8
	case 1:
		return 300
	}
	return 300
}

func (c *GenCfg) corner(r *Rng) bool { return c.Corner > 0 && r.Intn(100) < c.Corner }

var asciiSamples = []string{"user@example.com", "alice@Example.COM", "0208930000000001@nai.5gc.mnc093.mcc208.3GPPNETWORK.ORG", "Bob@Sub.Example.Org", "free5gc", "anonymous@nai.5gc.mnc093.mcc208.3gppnetwork.org", "n3iwf.free5gc.org",
	"0123456789", "AAAAAAAAAAAAAAAA", "EAP-AKA'", "\x00\x00\x00\x00", "IKEv2", "{\"k\":1}"}

func genData(r *Rng, c *GenCfg, minLen int) Hex {
	n := r.SmallLen(c.dataMax())
	if r.Chance(1, 16) && c.dataMax() >= 300 {
		n = Pick(r, 7, 13, 21, 49, 91, 100, 127, 128, 255, 256, 257) // lengths with unusual divisors
	}
	if n < minLen {
		n = minLen
	}
	if n == 0 {
		return nil
	}
	b := r.Bytes(n)
	switch r.Intn(24) {
	case 0, 1, 2: // content that looks like lengths / type codes
		for i := range b {
			b[i] = Pick(r, byte(0), 0xff, 0x80, 0x2e, 0x04, 0x10, 0x0f)
		}
	case 3, 4: // all octets equal
		v := Pick[uint8](r, 0x00, 0xff, 0x20, 0x41, 0x30, 0x01, 0x80, 0x7f, 0x55, 0xaa)
		for i := range b {
			b[i] = v
		}
	case 5: // counter
		start := r.U8()
		for i := range b {
			b[i] = start + byte(i)
		}
	case 6, 7: // text
		t := Pick(r, asciiSamples...)
		for i := range b {
			b[i] = t[i%len(t)]
		}
	}
	return b
}

func genTransform(r *Rng, c *GenCfg, typ uint8) TransformSpec {
	t := TransformSpec{Type: typ}
	if r.Chance(2, 3) {
		switch typ {
		case 1:
			t.ID = Pick[uint16](r, 12, 12, 3, 11, 13)
		case 2:
			t.ID = Pick[uint16](r, 1, 2, 5)
		case 3:
			t.ID = Pick[uint16](r, 1, 2, 12, 0)
		case 4:
			t.ID = Pick[uint16](r, 2, 14, 0, 5)
		case 5:
			t.ID = Pick[uint16](r, 0, 1)
		}
	} else {
		t.ID = r.U16()
	}
	switch r.Intn(10) {
	case 0, 1, 2, 3: // no attribute
	case 4, 5, 6, 7: // TV
		t.HasAttr, t.TV = true, true
		t.AType = 14
		t.AValue = Pick[uint16](r, 128, 192, 256, 0, 65535, r.U16())
		if c.corner(r) || r.Chance(1, 6) {
			t.AType = Pick[uint16](r, 127, 128, 129, 255, 256, 0x7fff, 0x4000, uint16(r.Intn(0x8000)))
		}
	default: // TLV
		t.HasAttr, t.TV = true, false
		t.AType = Pick[uint16](r, 14, 1, uint16(r.Intn(0x8000)))
		n := 1 + r.SmallLen(min(c.dataMax(), 64))
		t.AVar = r.Bytes(n)
	}
	return t
}

func genTransforms(r *Rng, c *GenCfg, typ uint8, n int) []TransformSpec {
	var out []TransformSpec
	for i := 0; i < n; i++ {
		out = append(out, genTransform(r, c, typ))
	}
	return out
}

func genSPI(r *Rng, c *GenCfg, boundary []int) Hex {
	if c.corner(r) {
		return r.Bytes(Pick(r, boundary...))
	}
	switch r.Intn(8) {
	case 0, 1, 2:
		return nil
	case 3, 4:
		return r.Bytes(4)
	case 5:
		return r.Bytes(8)
	case 6:
		return r.Bytes(r.Range(1, 32))
	}
	return r.Bytes(r.Range(1, 255))
}

func genProposal(r *Rng, c *GenCfg, num uint8) ProposalSpec {
	p := ProposalSpec{Num: num, Proto: Pick[uint8](r, 1, 3, 2, r.U8())}
	if r.Chance(1, 6) {
		p.Num = r.U8()
	}
	p.SPI = genSPI(r, c, []int{247, 248, 249, 251, 252, 255})
	total := 0
	counts := [5]int{}
	want := r.Range(1, 6)
	if c.SizeClass == 0 {
		want = r.Range(1, 2)
	} else if r.Chance(1, 80) {
		want = Pick(r, 16, 254, 255) // the transform count is an 8-bit field
	}
	for total < want {
		counts[r.Intn(5)]++
		total++
	}
	p.Encr = genTransforms(r, c, 1, counts[0])
	p.Prf = genTransforms(r, c, 2, counts[1])
	p.Integ = genTransforms(r, c, 3, counts[2])
	p.DH = genTransforms(r, c, 4, counts[3])
	p.ESN = genTransforms(r, c, 5, counts[4])
	return p
}

func genTS(r *Rng) TSSpec {
	t := TSSpec{Proto: Pick[uint8](r, 0, 6, 17, r.U8()), SPort: r.U16(), EPort: r.U16()}
	if r.Bool() {
		t.Type = 7
		t.SAddr, t.EAddr = r.Bytes(4), r.Bytes(4)
	} else {
		t.Type = 8
		t.SAddr, t.EAddr = r.Bytes(16), r.Bytes(16)
	}
	if r.Chance(1, 4) {
		t.SPort, t.EPort = 0, 65535
	}
	return t
}

func genAka(r *Rng, c *GenCfg) *EAPSpec {
	e := &EAPSpec{Code: Pick[uint8](r, 1, 2), ID: r.U8(), Kind: "aka"}
	e.SubType = Pick[uint8](r, 1, 2, 4, 5, 12, 13, 14, r.U8())
	// ascending type order: 1 2 3 11 23 24 134
	p := 2
	if r.Chance(1, 5) {
		p = 1 // many attributes
	}
	inc := func() bool { return r.Intn(p+1) == 0 }
	if inc() {
		e.Attrs = append(e.Attrs, AkaAttrSpec{1, r.Bytes(16)})
	}
	if inc() {
		e.Attrs = append(e.Attrs, AkaAttrSpec{2, r.Bytes(16)})
	}
	if inc() {
		e.Attrs = append(e.Attrs, AkaAttrSpec{3, r.Bytes(r.Range(4, 16))})
	}
	if inc() {
		e.Attrs = append(e.Attrs, AkaAttrSpec{11, r.Bytes(16)})
	}
	if inc() {
		n := r.SmallLen(min(c.dataMax(), 300))
		if c.corner(r) {
			n = Pick(r, 0, 247, 248, 251, 252, 253, 255, 256, 300)
		}
		var v Hex
		if n > 0 {
			v = r.Bytes(n)
		}
		e.Attrs = append(e.Attrs, AkaAttrSpec{23, v})
	}
	if inc() {
		e.Attrs = append(e.Attrs, AkaAttrSpec{24, r.Bytes(2)})
	}
	if inc() && (c.corner(r) || r.Chance(1, 3)) {
		n := Pick(r, 0, 20, 32)
		var v Hex
		if n > 0 {
			v = r.Bytes(n)
		}
		e.Attrs = append(e.Attrs, AkaAttrSpec{134, v})
	}
	return e
}

func genEAP(r *Rng, c *GenCfg) *EAPSpec {
	switch r.Intn(8) {
	case 0:
		return &EAPSpec{Code: Pick[uint8](r, 3, 4), ID: r.U8()}
	case 1:
		return &EAPSpec{Code: Pick[uint8](r, 1, 2), ID: r.U8(), Kind: "identity", Data: genData(r, c, 1)}
	case 2:
		return &EAPSpec{Code: Pick[uint8](r, 1, 2), ID: r.U8(), Kind: "notification", Data: genData(r, c, 1)}
	case 3:
		return &EAPSpec{Code: Pick[uint8](r, 1, 2), ID: r.U8(), Kind: "nak", Data: genData(r, c, 1)}
	case 4, 5:
		e := &EAPSpec{Code: Pick[uint8](r, 1, 2), ID: r.U8(), Kind: "expanded", Data: genData(r, c, 0)}
		e.VendorID = Pick[uint32](r, 10415, 0, 0xffffff, r.U32()&0xffffff)
		e.VendorType = Pick[uint32](r, 3, 0, 0xffffffff, r.U32())
		return e
	}
	return genAka(r, c)
}

func genPayload(r *Rng, c *GenCfg, kind string) PayloadSpec {
	p := PayloadSpec{Kind: kind}
	switch kind {
	case "SA":
		n := Pick(r, 1, 1, 1, 2, 2, 3, 5)
		if c.SizeClass == 0 {
			n = 1
		} else if r.Chance(1, 60) {
			n = Pick(r, 16, 255, 256, 257) // many proposals
			small := *c
			small.SizeClass = 0
			for i := 0; i < n; i++ {
				p.Proposals = append(p.Proposals, genProposal(r, &small, uint8(i+1)))
			}
			return p
		}
		for i := 0; i < n; i++ {
			pr := genProposal(r, c, uint8(i+1))
			if i > 0 && r.Chance(1, 4) {
				// proposals built incrementally from one container: same ENCR transforms plus more
				prev := p.Proposals[i-1].Encr
				others := len(pr.Prf) + len(pr.Integ) + len(pr.DH) + len(pr.ESN)
				if len(prev) > 0 && len(prev)+2+others <= 255 { // the transform count is an 8-bit field
					pr.Encr = append(append([]TransformSpec{}, prev...), genTransforms(r, c, 1, r.Range(1, 2))...)
					pr.ShareEncr = true
				}
			}
			p.Proposals = append(p.Proposals, pr)
		}
	case "KE":
		p.B = Pick[uint16](r, 2, 14, r.U16())
		p.Data = genData(r, c, 1)
	case "IDi", "IDr":
		p.A = Pick[uint8](r, 1, 2, 3, 5, 11, r.U8())
		p.Data = genData(r, c, 1)
	case "CERT", "CERTREQ":
		p.A = Pick[uint8](r, 4, 1, 12, r.U8())
		p.Data = genData(r, c, 1)
	case "AUTH":
		p.A = Pick[uint8](r, 1, 2, 3, r.U8())
		p.Data = genData(r, c, 1)
	case "Nonce", "V":
		p.Data = genData(r, c, 0)
	case "N":
		p.A = Pick[uint8](r, 0, 1, 3, r.U8())
		p.B = Pick[uint16](r, 16388, 16389, 14, 55501, r.U16())
		p.SPI = genSPI(r, c, []int{251, 252, 253, 255})
		p.Data = genData(r, c, 0)
	case "D":
		p.A = Pick[uint8](r, 1, 2, 3, r.U8())
		if r.Chance(1, 3) {
			p.SPISize, p.NumSPI = 0, 0
		} else {
			p.SPISize = 4
			n := r.SmallLen(20)
			for i := 0; i < n; i++ {
				p.SPIs = append(p.SPIs, r.U32())
			}
			p.NumSPI = uint16(n)
		}
	case "TSi", "TSr":
		n := Pick(r, 1, 1, 2, 2, 3, 4)
		if c.SizeClass != 0 && r.Chance(1, 30) {
			n = Pick(r, 254, 255, r.Range(5, 255))
		}
		for i := 0; i < n; i++ {
			p.TS = append(p.TS, genTS(r))
		}
	case "CP":
		p.A = Pick[uint8](r, 1, 2, 3, 4, r.U8())
		n := Pick(r, 1, 1, 2, 3, 5)
		if c.SizeClass != 0 && r.Chance(1, 60) {
			n = Pick(r, 64, 255, 256, 300)
		}
		for i := 0; i < n; i++ {
			a := CPAttrSpec{Type: Pick[uint16](r, 1, 2, 3, 8, 13, uint16(r.Intn(0x8000))), Value: genData(r, c, 0)}
			if c.corner(r) {
				a.Type = Pick[uint16](r, 0x7fff, 0x4000, 0)
			}
			p.Attrs = append(p.Attrs, a)
		}
	case "EAP":
		p.EAP = genEAP(r, c)
	}
	return p
}

func genHeader(r *Rng, m *MsgSpec) {
	m.ISPI, m.RSPI = r.U64(), r.U64()
	if r.Chance(1, 8) {
		m.RSPI = 0
	}
	if r.Chance(1, 10) { // values a deployment actually uses: small counters, patterned, top bit set, all ones
		m.ISPI = Pick[uint64](r, 1, 2, 0x0102030405060708, 0x8000000000000000, 0xffffffffffffffff, 0x00000000ffffffff, uint64(r.Intn(1000)))
		m.RSPI = Pick[uint64](r, 0, 1, 0x1111111111111111, 0x8000000000000001, 0xffffffffffffffff, uint64(r.Intn(1000)))
	}
	m.Major, m.Minor = 2, 0
	if r.Chance(1, 4) {
		m.Major, m.Minor = uint8(r.Intn(16)), uint8(r.Intn(16))
	}
	m.Exch = Pick[uint8](r, 34, 35, 36, 37, r.U8())
	m.Flags = Pick[uint8](r, 0x08, 0x20, 0x28, 0x00, r.U8())
	m.MsgID = Pick[uint32](r, 0, 1, 2, r.U32(), 0xffffffff)
	// stale header bookkeeping, as on a reused / previously decoded message object
	if r.Chance(1, 3) {
		m.HdrNext = Pick[uint8](r, 46, 46, 33, 40, 41, 48, 255, r.U8())
		m.Junk = r.Bool()
	}
}

// inflatable payload slots for the "near the limit" size class
func inflate(r *Rng, m *MsgSpec, target int) {
	cur := m.innerSize()
	if cur >= target {
		return
	}
	for i := range m.Payloads {
		p := &m.Payloads[i]
		switch p.Kind {
		case "Nonce", "V", "N", "KE", "IDi", "IDr", "AUTH", "CERT", "CERTREQ":
			add := target - cur
			if 4+p.bodySize()+add > 65535 {
				add = 65535 - 4 - p.bodySize()
			}
			p.Data = append(p.Data, r.Bytes(add)...)
			return
		}
	}
	// none inflatable: append a Vendor ID payload if there is room for its header
	if target-cur >= 4 {
		m.Payloads = append(m.Payloads, PayloadSpec{Kind: "V", Data: r.Bytes(target - cur - 4)})
	}
}

// ---------------------------------------------------------------------------
// Realistic deployment data: messages shaped like the ones free5GC's N3IWF/TNGF and a UE really exchange
// (3GPP NAIs and serving-network names, DER-framed certificates, standard proposals, 3GPP notifies, EAP-5G).
// Uniformly random octets practically never look like this; code that treats such values specially must
// be exercised too. A few distinct subscribers are used so that messages differ in the realistic parts only.
// ---------------------------------------------------------------------------

func imsi(r *Rng) string { return fmt.Sprintf("20893%010d", r.Intn(4)) }

func nai(r *Rng) string {
	return "0" + imsi(r) + "@nai.5gc.mnc093.mcc208." + Pick(r, "3gppnetwork.org", "3gppnetwork.org", "3GPPNETWORK.ORG", "3gppNetwork.Org")
}

func derCert(r *Rng) Hex {
	body := []byte("ue-" + imsi(r) + "-certificate-")
	body = append(body, r.Bytes(r.Range(240, 900))...) // real certificates are 256..65535 octets: the two-octet DER length form
	l := len(body)
	return append([]byte{0x30, 0x82, byte(l >> 8), byte(l)}, body...)
}

func stdProposal(num, proto uint8, spi Hex, esp bool) ProposalSpec {
	p := ProposalSpec{Num: num, Proto: proto, SPI: spi}
	p.Encr = []TransformSpec{{Type: 1, ID: 12, HasAttr: true, TV: true, AType: 14, AValue: 256}}
	p.Integ = []TransformSpec{{Type: 3, ID: 12}}
	if esp {
		p.ESN = []TransformSpec{{Type: 5, ID: 0}}
	} else {
		p.Prf = []TransformSpec{{Type: 2, ID: 5}}
		p.DH = []TransformSpec{{Type: 4, ID: 14}}
	}
	return p
}

func genRealisticMsg(r *Rng) *MsgSpec {
	m := &MsgSpec{ISPI: 0x0a0b0c0d00000000 | uint64(r.Intn(4)), RSPI: 0x1000000000000000 | uint64(r.Intn(4)), Major: 2, MsgID: uint32(r.Intn(6))}
	netName := "5G:mnc093.mcc208.3gppnetwork.org"
	switch r.Intn(7) {
	case 0: // IKE_SA_INIT request
		m.Exch, m.Flags, m.RSPI, m.MsgID = 34, 0x08, 0, 0
		m.Payloads = []PayloadSpec{
			{Kind: "SA", Proposals: []ProposalSpec{stdProposal(1, 1, nil, false)}},
			{Kind: "KE", B: 14, Data: r.Bytes(256)},
			{Kind: "Nonce", Data: r.Bytes(32)},
			{Kind: "N", A: 0, B: 16388, Data: r.Bytes(20)},
			{Kind: "N", A: 0, B: 16389, Data: r.Bytes(20)},
		}
	case 1: // IKE_AUTH request, first round
		m.Exch, m.Flags = 35, 0x08
		m.Payloads = []PayloadSpec{
			{Kind: "IDi", A: 3, Data: Hex(nai(r))},
			{Kind: "CERTREQ", A: 4, Data: r.Bytes(20)},
			{Kind: "SA", Proposals: []ProposalSpec{stdProposal(1, 3, r.Bytes(4), true)}},
			{Kind: "TSi", TS: []TSSpec{{Type: 7, SPort: 0, EPort: 65535, SAddr: Hex{0, 0, 0, 0}, EAddr: Hex{255, 255, 255, 255}}}},
			{Kind: "TSr", TS: []TSSpec{{Type: 7, SPort: 0, EPort: 65535, SAddr: Hex{10, 0, 0, 1}, EAddr: Hex{10, 0, 0, 1}}}},
			{Kind: "CP", A: 1, Attrs: []CPAttrSpec{{Type: 1}, {Type: 2}}},
		}
	case 2: // IKE_AUTH response with certificate and EAP-5G start
		m.Exch, m.Flags = 35, 0x20
		m.Payloads = []PayloadSpec{
			{Kind: "IDr", A: 2, Data: Hex("n3iwf.free5gc.org")},
			{Kind: "CERT", A: 4, Data: derCert(r)},
			{Kind: "AUTH", A: 1, Data: r.Bytes(256)},
			{Kind: "EAP", EAP: &EAPSpec{Code: 1, ID: r.U8(), Kind: "expanded", VendorID: 10415, VendorType: 3, Data: Hex{1, 0}}},
		}
	case 3: // EAP-AKA' challenge
		m.Exch, m.Flags = 35, 0x20
		m.Payloads = []PayloadSpec{{Kind: "EAP", EAP: &EAPSpec{Code: 1, ID: r.U8(), Kind: "aka", SubType: 1, Attrs: []AkaAttrSpec{
			{1, r.Bytes(16)}, {2, r.Bytes(16)}, {11, r.Bytes(16)}, {23, Hex(netName)}, {24, Hex{0, 1}}}}}}
	case 4: // EAP-AKA' response + EAP-5G NAS
		m.Exch, m.Flags = 35, 0x08
		nas := r.Bytes(r.Range(20, 80))
		m.Payloads = []PayloadSpec{
			{Kind: "EAP", EAP: &EAPSpec{Code: 2, ID: r.U8(), Kind: "aka", SubType: 1, Attrs: []AkaAttrSpec{{3, r.Bytes(Pick(r, 8, 16))}, {11, r.Bytes(16)}}}},
			{Kind: "EAP", EAP: &EAPSpec{Code: 2, ID: r.U8(), Kind: "expanded", VendorID: 10415, VendorType: 3, Data: append(Hex{2, 0, 0, 0, byte(len(nas) >> 8), byte(len(nas))}, nas...)}},
			{Kind: "EAP", EAP: &EAPSpec{Code: 2, ID: r.U8(), Kind: "identity", Data: Hex(nai(r))}},
		}
	case 5: // CREATE_CHILD_SA with 3GPP notifies
		m.Exch, m.Flags = 36, 0x20
		m.Payloads = []PayloadSpec{
			{Kind: "SA", Proposals: []ProposalSpec{stdProposal(1, 3, r.Bytes(4), true)}},
			{Kind: "Nonce", Data: r.Bytes(32)},
			{Kind: "TSi", TS: []TSSpec{{Type: 7, Proto: 0, SPort: 0, EPort: 65535, SAddr: Hex{10, 60, 0, 1}, EAddr: Hex{10, 60, 0, 1}}}},
			{Kind: "TSr", TS: []TSSpec{{Type: 7, Proto: 0, SPort: 0, EPort: 65535, SAddr: Hex{10, 60, 0, 2}, EAddr: Hex{10, 60, 0, 2}}}},
			{Kind: "N", A: 0, B: 55501, Data: Hex{4, 1, 1, 9, 0}},
			{Kind: "N", A: 0, B: 55504, Data: Hex{10, 0, 0, 1}},
		}
	default: // INFORMATIONAL: delete / liveness
		m.Exch, m.Flags = 37, Pick[uint8](r, 0x08, 0x20, 0x28)
		if r.Bool() {
			m.Payloads = []PayloadSpec{{Kind: "D", A: 1}}
		} else if r.Bool() {
			m.Payloads = []PayloadSpec{{Kind: "D", A: 3, SPISize: 4, NumSPI: 2, SPIs: []uint32{r.U32(), r.U32()}}}
		}
	}
	return m
}

func genMsg(r *Rng, c *GenCfg) *MsgSpec {
	if c.SizeClass != 2 && c.MaxInner >= 1500 && r.Chance(1, 8) {
		return genRealisticMsg(r)
	}
	m := &MsgSpec{}
	genHeader(r, m)
	n := r.Intn(c.MaxPayloads + 1)
	if r.Chance(1, 12) {
		n = 0
	} else if n == 0 && r.Chance(2, 3) {
		n = 1
	}
	if c.SizeClass != 0 && r.Chance(1, 150) {
		// a very long chain of tiny payloads (counts around 255/256 and beyond)
		n = Pick(r, 255, 256, 257, 300, 600)
		tiny := GenCfg{SizeClass: 0, Kinds: []string{"Nonce", "V", "N", "D"}}
		for i := 0; i < n; i++ {
			m.Payloads = append(m.Payloads, genPayload(r, &tiny, Pick(r, tiny.Kinds...)))
		}
		n = 0
	}
	for i := 0; i < n; i++ {
		m.Payloads = append(m.Payloads, genPayload(r, c, Pick(r, c.Kinds...)))
	}
	// stay inside the domain: the protected form must fit the 16-bit lengths
	for m.innerSize() > c.MaxInner && len(m.Payloads) > 0 {
		m.Payloads = m.Payloads[:len(m.Payloads)-1]
	}
	if c.SizeClass == 2 && len(m.Payloads) > 0 {
		target := c.MaxInner - Pick(r, 0, 0, 1, 15, 16, 17, r.Intn(64))
		inflate(r, m, target)
		for m.innerSize() > c.MaxInner && len(m.Payloads) > 0 {
			m.Payloads = m.Payloads[:len(m.Payloads)-1]
		}
	}
	return m
}

// genSimpleMsg: a small message of simple payload kinds only (used where the
// message content is not the subject: C02, C17, C08 traffic).
func genSimpleMsg(r *Rng, maxPayloads int) *MsgSpec {
	c := GenCfg{MaxPayloads: maxPayloads, SizeClass: Pick(r, 0, 1), MaxInner: 4000,
		Kinds: []string{"Nonce", "N", "V", "KE", "IDi", "AUTH", "D", "TSi", "CP", "EAP"}}
	if c.SizeClass == 1 {
		c.SizeClass = 0
		if r.Chance(1, 3) {
			c.SizeClass = 1
		}
	}
	m := genMsg(r, &c)
	return m
}
