package main

import (
	"bytes"
	"unsafe"

	"github.com/free5gc/ike/message"
)

// ---------------------------------------------------------------------------
// C20 — decoded messages own their data; encoding is pure and deterministic.
// The receive loop reuses ONE buffer per world (arena) while decoded messages
// are still queued; the send side re-encodes stored messages (retransmission)
// and scribbles returned buffers. Oracles are self-consistency only.
// ---------------------------------------------------------------------------

type held struct {
	msg    *message.IKEMessage
	snap   []byte // canon(extract(msg)) at decode time
	spec   *MsgSpec
	left   int
	step   int
	nonce  []byte // copies snapshotted at decode time (handshake sub-class)
	ke     []byte
	hasKDF bool
}

func init() {
	sendHooks["C20"] = c20Send
	deliverHooks["C20"] = c20Deliver
	finals["C20"] = func(w *World) { c20Tick(w, true) }
	props["C20"] = &PropDef{
		ID: "C20", Level: "exploration",
		Gen:   genC20,
		Count: map[string]int{"quick": 100000, "thorough": 2500000},
		Rule: "scenario = a session as in C01 (plain and protected traffic, full encodable domain, all suites stratified) run through a receive loop that " +
			"REUSES one buffer: every datagram is copied into the same arena (exact-capacity or with spare capacity), decoded/unprotected, the buffer is then " +
			"scribbled (complement / random / zero / overwritten by the next datagram) while the decoded message stays queued for 0..8 further events; " +
			"IKE_SA_INIT-like messages held in the queue feed a key derivation after the buffer was reused. Send side: Encode / EncodeEncrypt on messages " +
			"built from the same spec 2..8 times (retransmission), returned buffers scribbled. Oracle (self-consistency): extract(decoded) at decode time == " +
			"after scribble == at dequeue time; keys derived from held values == from copies taken at decode time; extract(msg) before Encode == after; " +
			"original payload objects unchanged by EncodeEncrypt, message list = exactly one SK payload, header fields unchanged; scribbling a returned " +
			"buffer changes neither re-extraction nor re-encoding; repeated plain encodings byte-identical. Non-trivial = a decoded message with at least one " +
			"octet-string field was re-extracted after its input buffer had been overwritten; distinct = distinct abstract traces.",
		Components: defaultComponents,
	}
}

func (w *World) arenaBuf(d []byte, spare int) []byte {
	if w.arena == nil {
		w.arena = make([]byte, 70000)
	}
	if len(d)+spare > len(w.arena) {
		return rxBuffer(d, spare)
	}
	copy(w.arena, d)
	for i := len(d); i < len(d)+spare; i++ {
		w.arena[i] = 0xA5 ^ byte(i)
	}
	if spare <= 0 {
		return w.arena[:len(d):len(d)]
	}
	return w.arena[: len(d) : len(d)+spare]
}

func scribble(buf []byte, kind string, seed uint64) {
	full := buf[:cap(buf)]
	switch kind {
	case "complement":
		for i := range full {
			full[i] ^= 0xff
		}
	case "random":
		NewRng(seed).Fill(full)
	case "zero":
		for i := range full {
			full[i] = 0
		}
	}
}

func hasOctets(s *MsgSpec) bool {
	for i := range s.Payloads {
		p := &s.Payloads[i]
		if len(p.Data) > 0 || len(p.SPI) > 0 || len(p.Proposals) > 0 || len(p.TS) > 0 || len(p.Attrs) > 0 || (p.EAP != nil && (len(p.EAP.Data) > 0 || len(p.EAP.Attrs) > 0)) {
			return true
		}
	}
	return false
}

// c20Tick advances the queue by one event and processes messages whose hold expired.
func c20Tick(w *World, all bool) {
	keep := w.inbox[:0]
	for _, h := range w.inbox {
		h.left--
		if h.left > 0 && !all {
			keep = append(keep, h)
			continue
		}
		now := extract(h.msg)
		if !bytes.Equal(now.canon(), h.snap) {
			w.violate("decoded_message_changed_in_queue", specDiff(h.spec, now), "a decoded message queued at step %d changed while later datagrams were received into the reused buffer: now %s", h.step, jsonOf(now))
		} else if hasOctets(now) {
			w.nontriv = true
		}
		w.stats.inc("c20_dequeued_checked")
		if h.hasKDF {
			// the values taken from the HELD message feed the next protocol step
			var nonce, ke []byte
			for _, p := range h.msg.Payloads {
				switch v := p.(type) {
				case *message.Nonce:
					nonce = v.NonceData
				case *message.KeyExchange:
					ke = v.KeyExchangeData
				}
			}
			su := Suite{Encr: 16, Integ: "sha1", Prf: "sha1", DH: 2}
			a, errA := kdfKeyObj(su, nonce, ke, 1, 2)
			b, errB := kdfKeyObj(su, h.nonce, h.ke, 1, 2)
			if (errA == nil) != (errB == nil) || (errA == nil && !bytes.Equal(a.SK_d, b.SK_d)) {
				w.violate("keys_from_held_values_differ", "kdf", "keys derived from the nonce/KE of a held message differ from keys derived from copies taken at decode time")
			}
			w.stats.inc("c20_held_kdf_checked")
		}
	}
	w.inbox = keep
}

func c20Deliver(c *deliverCtx) {
	w, s := c.w, c.s
	c20Tick(w, false)
	if c.res.class() == "panic" || c.res.class() == "err" {
		return // rejection / codec behaviour is other properties' business
	}
	rx := RxOpts{}
	if s.Rx != nil {
		rx = *s.Rx
	}
	snap0 := extract(c.msg)
	canon0 := snap0.canon()
	scribble(c.buf, rx.Scribble, uint64(w.step)*7919+1)
	if rx.Scribble != "" {
		w.stats.inc("fault_rxbuf_scribble_" + rx.Scribble)
		snap1 := extract(c.msg)
		if !bytes.Equal(snap1.canon(), canon0) {
			w.violate("decoded_message_aliases_input", specDiff(snap0, snap1), "overwriting the receive buffer (%s) after decoding changed the decoded message at %s:\n before %s\n after  %s",
				rx.Scribble, specDiff(snap0, snap1), jsonOf(snap0), jsonOf(snap1))
			return
		}
		if hasOctets(snap0) {
			w.nontriv = true
		}
	}
	// plain encoding of a DECODED message (forwarding / logging it) must not alter it either
	if w.step%3 == 0 {
		var enc []byte
		r := &callResult{}
		guard(r, func() { enc, r.Err = c.msg.Encode() })
		if r.class() == "ok" {
			after := extract(c.msg)
			if d := specDiff(snap0, after); d != "" {
				w.violate("encode_altered_message", "decoded:"+d, "plain encoding of a decoded message altered it at %s:\n before %s\n after  %s", d, jsonOf(snap0), jsonOf(after))
				return
			}
			first := clone(enc)
			scribble(enc, "complement", 0)
			scribble(c.buf, "random", uint64(w.step)+99) // the receive buffer is reused in between
			var enc2 []byte
			r2 := &callResult{}
			guard(r2, func() { enc2, r2.Err = c.msg.Encode() })
			if r2.class() == "ok" && !bytes.Equal(first, enc2) {
				w.violate("encode_not_deterministic", "decoded", "two encodings of the same unmodified decoded message differ after the receive buffer was reused (%d vs %d octets)", len(first), len(enc2))
				return
			}
			w.stats.inc("c20_decoded_reencoded")
			// the caller keeps a returned encoding (for retransmission), then sends ITS message again under the next
			// message ID: the buffer it kept is its own and must not change when the message is encoded again
			if r2.class() == "ok" && c.msg.IKEHeader != nil {
				keptSnap := clone(enc2)
				c.msg.MessageID ^= 0x00a5a5a5
				r3 := &callResult{}
				guard(r3, func() { _, r3.Err = c.msg.Encode() })
				c.msg.MessageID ^= 0x00a5a5a5
				if !bytes.Equal(enc2, keptSnap) {
					w.violate("returned_buffer_changed_later", "IKEMessage.Encode", "a buffer returned by IKEMessage.Encode changed when the same message object was encoded again under another message ID")
					return
				}
				w.stats.inc("c20_kept_encoding_checked_after_reencoding")
			}
		}
	}
	h := &held{msg: c.msg, snap: canon0, spec: snap0, left: rx.Hold + 1, step: w.step}
	for _, p := range c.msg.Payloads {
		switch v := p.(type) {
		case *message.Nonce:
			h.nonce = clone(v.NonceData)
		case *message.KeyExchange:
			h.ke = clone(v.KeyExchangeData)
		}
	}
	h.hasKDF = len(h.nonce) > 0 && len(h.ke) > 0
	w.inbox = append(w.inbox, h)
	if rx.Hold > 0 {
		w.stats.inc("fault_rxbuf_reused_while_queued")
	}
}

// overlaps reports whether two byte slices share memory (backing-array ranges intersect).
func overlaps(a, b []byte) bool {
	if cap(a) == 0 || cap(b) == 0 {
		return false
	}
	a0 := uintptr(unsafe.Pointer(unsafe.SliceData(a)))
	b0 := uintptr(unsafe.Pointer(unsafe.SliceData(b)))
	return a0 < b0+uintptr(cap(b)) && b0 < a0+uintptr(cap(a))
}

// referencesBuffer: does the message (header bookkeeping included, Encrypted payload data included) point into buf?
func referencesBuffer(m *message.IKEMessage, buf []byte) string {
	if m.IKEHeader != nil && overlaps(m.PayloadBytes, buf) {
		return "header.PayloadBytes"
	}
	for _, p := range m.Payloads {
		if e, ok := p.(*message.Encrypted); ok && overlaps(e.EncryptedData, buf) {
			return "Encrypted.EncryptedData"
		}
	}
	return ""
}

func headerTuple(m *message.IKEMessage) [7]uint64 {
	return [7]uint64{m.InitiatorSPI, m.ResponderSPI, uint64(m.MajorVersion), uint64(m.MinorVersion), uint64(m.ExchangeType), uint64(m.Flags), uint64(m.MessageID)}
}

type heldEnc struct {
	buf  []byte
	snap []byte
	step int
}

// c20HeldEncodings: buffers returned by the public IKEPayloadContainer.Encode are held
// across later encodings (of other messages) and must keep their content.
func c20HeldEncodings(w *World, twin *message.IKEMessage) {
	helds, _ := w.ext["c20_heldenc"].([]*heldEnc)
	for _, h := range helds {
		if !bytes.Equal(h.buf, h.snap) {
			w.violate("returned_buffer_changed_later", "container.Encode", "a buffer returned by IKEPayloadContainer.Encode at step %d changed when another message was encoded later", h.step)
			break
		}
	}
	if len(helds) >= 4 {
		helds = helds[1:]
	}
	if twin != nil && len(twin.Payloads) > 0 {
		var b []byte
		r := &callResult{}
		guard(r, func() { b, r.Err = twin.Payloads.Encode() })
		if r.class() == "ok" && len(b) > 0 {
			helds = append(helds, &heldEnc{buf: b, snap: clone(b), step: w.step})
			w.stats.inc("c20_returned_buffers_held")
		}
	}
	w.ext["c20_heldenc"] = helds
}

func c20Send(c *sendCtx) {
	w, s := c.w, c.s
	c20Tick(w, false)
	if c.res.class() != "ok" {
		return
	}
	spec0, err := s.Msg.build() // an identically built twin gives the "before" picture
	if err != nil {
		return
	}
	before := extract(spec0)
	c20HeldEncodings(w, spec0)
	if s.NilKey {
		// plain encoding is pure: message unchanged, same payload objects, deterministic
		after := extract(c.msg)
		if d := specDiff(before, after); d != "" {
			w.violate("encode_altered_message", d, "plain encoding altered the message at %s", d)
			return
		}
		for i := range c.orig {
			if i >= len(c.msg.Payloads) || c.msg.Payloads[i] != c.orig[i] {
				w.violate("encode_altered_message", "payload_list", "plain encoding replaced payload objects of the message")
				return
			}
		}
		first := clone(c.out)
		if f := referencesBuffer(c.msg, c.out); f != "" {
			w.violate("message_references_returned_buffer", f, "after Encode the message's %s points into the buffer that was returned to the caller", f)
			return
		}
		scribble(c.out, "complement", 0)
		w.stats.inc("fault_txbuf_scribble")
		if d := specDiff(before, extract(c.msg)); d != "" {
			w.violate("message_references_returned_buffer", d, "scribbling the buffer returned by Encode changed the message at %s", d)
			return
		}
		n := s.Repeat
		if n < 2 {
			n = 2
		}
		for i := 1; i < n; i++ {
			var again []byte
			r := &callResult{}
			guard(r, func() { again, r.Err = c.msg.Encode() })
			if r.class() != "ok" {
				w.violate("reencode_failed", "plain", "encoding an unmodified message again failed: %s %v %s", r.class(), r.Err, r.Panic)
				return
			}
			if !bytes.Equal(again, first) {
				w.violate("encode_not_deterministic", "plain", "encoding #%d of an unmodified message differs from the first encoding", i+1)
				return
			}
			scribble(again, "random", uint64(i))
		}
		w.stats.add("c20_reencodings_compared", int64(n-1))
		// EncodeEncrypt(m,nil) on fresh twins is deterministic too (retransmission from the same spec)
		return
	}
	// protected: nothing but the payload list and header bookkeeping changes
	for i := range c.orig {
		if i >= len(c.callerList) || c.callerList[i] != c.orig[i] {
			w.violate("protect_altered_callers_payload_list", "list", "EncodeEncrypt wrote into the payload list the caller built the message from (element %d of the caller's slice is no longer the payload it put there)", i)
			return
		}
	}
	if d := payloadsDiff(before.Payloads, extractPayloads(c.orig)); d != "" {
		w.violate("protect_altered_payloads", d, "EncodeEncrypt altered an original payload object at %s", d)
		return
	}
	if len(c.msg.Payloads) != 1 || c.msg.Payloads[0].Type() != message.TypeSK {
		w.violate("protect_payload_list_wrong", "list", "after EncodeEncrypt the message holds %d payloads, expected exactly one Encrypted payload", len(c.msg.Payloads))
		return
	}
	if headerTuple(c.msg) != headerTuple(spec0) {
		w.violate("protect_altered_header", "header", "EncodeEncrypt changed header fields other than bookkeeping")
		return
	}
	afterProtect := extract(c.msg)
	if f := referencesBuffer(c.msg, c.out); f != "" {
		w.violate("message_references_returned_buffer", f, "after EncodeEncrypt the message's %s points into the datagram buffer that was returned to the caller", f)
		return
	}
	scribble(c.out, "complement", 0)
	w.stats.inc("fault_txbuf_scribble")
	if d := specDiff(afterProtect, extract(c.msg)); d != "" {
		w.violate("message_references_returned_buffer", d, "scribbling the buffer returned by EncodeEncrypt changed the message's Encrypted payload")
		return
	}
	// retransmission: re-encoding the stored (already protected) message plainly reproduces the datagram
	var again []byte
	r := &callResult{}
	guard(r, func() { again, r.Err = c.msg.Encode() })
	orig := c.w.dgrams[s.Dgram]
	if r.class() == "ok" && orig != nil && orig.Bytes != nil && !bytes.Equal(again, orig.Bytes) {
		w.violate("retransmission_differs", "protected", "re-encoding the stored protected message does not reproduce the datagram that was sent")
	}
	w.stats.inc("c20_protect_checked")
}

func genC20(r *Rng, idx int, tier string) *Scenario {
	sc := &Scenario{}
	su := suiteByIndex(idx)
	su.Prf, su.DH = Pick(r, prfNames...), 2
	sc.Steps = append(sc.Steps, genSAStep(r, 0, su, "direct"))
	cfg := swarmGenCfg(r, maxInnerProtected(su.refInteg().ICVLen))
	if cfg.SizeClass == 2 && r.Bool() {
		cfg.SizeClass = 1
	}
	n := Pick(r, 2, 3, 5, 8, 12, 20)
	if cfg.SizeClass == 2 {
		n = 2
	}
	var pending []int
	nilkeys := map[int]bool{}
	flush := func(all bool) {
		for len(pending) > 0 && (all || r.Chance(1, 2)) {
			k := r.Intn(len(pending))
			rx := genRx(r)
			rx.Scribble = Pick(r, "", "complement", "complement", "random", "zero")
			rx.Hold = Pick(r, 0, 0, 1, 2, 4, 8)
			st := Step{Op: "deliver", Dgram: pending[k], Rx: rx, Obj: Pick(r, "long", "twin")}
			if nilkeys[pending[k]] && r.Chance(1, 6) {
				// a plain datagram with an EAP-AKA' packet carrying attribute types the library has no reader for
				n := r.Range(2, 4)
				eapLen := 8 + 4*n
				d := make([]byte, 28)
				r.Fill(d[:16])
				d[16], d[17], d[18], d[19] = 48, 0x20, 35, 8
				total := 28 + 4 + eapLen
				d[24], d[25], d[26], d[27] = byte(total>>24), byte(total>>16), byte(total>>8), byte(total)
				d = append(d, 0, 0, byte((4+eapLen)>>8), byte(4+eapLen))
				d = append(d, 1, r.U8(), byte(eapLen>>8), byte(eapLen), 50, Pick[uint8](r, 1, 5), 0, 0)
				used := map[uint8]bool{}
				for len(used) < n {
					t := Pick[uint8](r, 5, 6, 7, 10, 13, 135, 136, 137, 200)
					if !used[t] {
						used[t] = true
						d = append(d, t, 1, 0, 0)
					}
				}
				st.Fault = &Fault{Kind: "garbage", Data: d}
			} else if nilkeys[pending[k]] && r.Chance(1, 3) {
				// an accepted byte string that no encoder of ours produced: reserved / high bits set, fields edited
				st.Fault = &Fault{Kind: "bitflip", Byte: 28 + r.Intn(60), Bit: Pick(r, 7, 7, 6, r.Intn(8))}
			}
			sc.Steps = append(sc.Steps, st)
			pending = append(pending[:k], pending[k+1:]...)
		}
	}
	for i := 0; i < n; i++ {
		var m *MsgSpec
		if r.Chance(1, 5) { // IKE_SA_INIT-like: nonce + KE feed a derivation later
			m = genSimpleMsg(r, 1)
			m.Payloads = append(m.Payloads, PayloadSpec{Kind: "KE", B: 2, Data: r.Bytes(r.Range(8, 128))}, PayloadSpec{Kind: "Nonce", Data: r.Bytes(r.Range(16, 64))})
		} else {
			m = genMsg(r, &cfg)
		}
		st := Step{Op: "send", SA: 0, Dgram: i, From: Pick(r, "I", "R"), Msg: m, Rand: &RandScript{Seed: r.U64()}, Repeat: r.Range(2, 8)}
		st.NilKey = r.Chance(2, 5)
		nilkeys[i] = st.NilKey
		sc.Steps = append(sc.Steps, st)
		pending = append(pending, i)
		flush(false)
	}
	flush(true)
	return sc
}
