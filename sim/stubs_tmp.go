package main

import (
	"fmt"
	"os"
	"os/exec"
	"strings"
)

// replaySpecial replays a C18 file in the binary its mode needs: the
// AST-instrumented one (serialized) or the -race one (parallel, up to 5 runs).
func replaySpecial(rf *ReplayFile, path string) int {
	yb, rb := os.Getenv("IKESIM_YIELD_BIN"), os.Getenv("IKESIM_RACE_BIN")
	if yb == "" || rb == "" {
		fmt.Fprintln(os.Stderr, "C18 replay needs the instrumented and -race binaries (use check.sh replay)")
		return 2
	}
	parallel := len(rf.Scenario.Steps) == 1 && (len(rf.Scenario.Steps[0].Rounds) > 0 || rf.Scenario.Steps[0].Procs > 0)
	if !parallel {
		cmd := exec.Command(yb, "replay", path)
		cmd.Env = append(os.Environ(), "IKESIM_C18_MODE=yield")
		cmd.Stdout, cmd.Stderr = os.Stdout, os.Stderr
		if err := cmd.Run(); err != nil {
			if ee, ok := err.(*exec.ExitError); ok {
				return ee.ExitCode()
			}
			return 2
		}
		return 0
	}
	for i := 1; i <= 5; i++ {
		cmd := exec.Command(rb, "replay", path)
		cmd.Env = append(os.Environ(), "IKESIM_C18_MODE=race", "GORACE=halt_on_error=1 exitcode=66")
		var se strings.Builder
		cmd.Stdout, cmd.Stderr = os.Stdout, &se
		err := cmd.Run()
		if err == nil {
			continue
		}
		if strings.Contains(se.String(), "WARNING: DATA RACE") || strings.Contains(se.String(), "fatal error: ") {
			fmt.Printf("reproduced on run %d/5\n%s\n", i, raceExcerpt(se.String()))
			fmt.Printf("VIOLATION property=%s replay=%s\n", rf.Property, path)
			return 1
		}
		if ee, ok := err.(*exec.ExitError); ok && ee.ExitCode() == 1 {
			fmt.Printf("VIOLATION property=%s replay=%s\n", rf.Property, path)
			return 1
		}
		fmt.Fprintln(os.Stderr, se.String())
		return 2
	}
	fmt.Println("replay: reproduced 0/5")
	return 0
}

// reportMain: confirm + shrink + write the replay file inside this binary.
func reportMain(args []string) int {
	if len(args) < 7 {
		return 2
	}
	p := props[args[0]]
	var seed uint64
	var idx int
	fmt.Sscan(args[2], &seed)
	fmt.Sscan(args[3], &idx)
	installSimRand()
	wv := WorkerViol{Index: idx, V: Violation{Prop: p.ID, Oracle: args[4], Key: args[5]}}
	if len(args) >= 10 {
		fmt.Sscan(args[7], &wv.Lo)
		fmt.Sscan(args[8], &wv.Wi)
		fmt.Sscan(args[9], &wv.Wn)
	}
	os.Setenv("IKESIM_REPORT_PATH", args[6])
	reportViolation(p, seed, args[1], wv)
	return 0
}
