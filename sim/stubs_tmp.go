package main

type held struct{}

func selftestMain(args []string) int   { return 0 }
func replaySpecial(rf *ReplayFile) int { return 2 }
