package main

import (
	"bytes"
	"encoding/json"
	"fmt"
	"regexp"
	"strings"
)

// specDiff returns the path of the first difference between two specs (a class
// usable as a finding key), or "" when they are equal.
func specDiff(a, b *MsgSpec) string {
	if a.ISPI != b.ISPI || a.RSPI != b.RSPI {
		return "header.spi"
	}
	if a.Major != b.Major || a.Minor != b.Minor {
		return "header.version"
	}
	if a.Exch != b.Exch {
		return "header.exchange"
	}
	if a.Flags != b.Flags {
		return "header.flags"
	}
	if a.MsgID != b.MsgID {
		return "header.msgid"
	}
	return payloadsDiff(a.Payloads, b.Payloads)
}

func payloadsDiff(a, b []PayloadSpec) string {
	if len(a) != len(b) {
		return "payloads.count"
	}
	for i := range a {
		if d := payloadDiff(&a[i], &b[i]); d != "" {
			return d
		}
	}
	return ""
}

func transformsDiff(a, b []TransformSpec) string {
	if len(a) != len(b) {
		return "transform.count"
	}
	for i := range a {
		x, y := a[i], b[i]
		switch {
		case x.Type != y.Type:
			return "transform.type"
		case x.ID != y.ID:
			return "transform.id"
		case x.HasAttr != y.HasAttr:
			return "transform.attr_present"
		case !x.HasAttr:
		case x.TV != y.TV:
			return "transform.attr_format"
		case x.AType != y.AType:
			return "transform.attr_type"
		case x.TV && x.AValue != y.AValue:
			return "transform.attr_value"
		case !x.TV && !bytes.Equal(x.AVar, y.AVar):
			return "transform.attr_tlv_value"
		}
	}
	return ""
}

func payloadDiff(a, b *PayloadSpec) string {
	k := a.Kind
	if a.Kind != b.Kind {
		return "payload.kind"
	}
	if bytes.Equal(canonPayloads([]PayloadSpec{*a}), canonPayloads([]PayloadSpec{*b})) {
		return ""
	}
	switch k {
	case "SA":
		if len(a.Proposals) != len(b.Proposals) {
			return "SA.proposal.count"
		}
		for i := range a.Proposals {
			x, y := a.Proposals[i], b.Proposals[i]
			if x.Num != y.Num || x.Proto != y.Proto {
				return "SA.proposal.header"
			}
			if !bytes.Equal(x.SPI, y.SPI) {
				return "SA.proposal.spi"
			}
			for _, p := range [][2][]TransformSpec{{x.Encr, y.Encr}, {x.Prf, y.Prf}, {x.Integ, y.Integ}, {x.DH, y.DH}, {x.ESN, y.ESN}} {
				if d := transformsDiff(p[0], p[1]); d != "" {
					return "SA." + d
				}
			}
		}
	case "N":
		if !bytes.Equal(a.SPI, b.SPI) {
			return "N.spi"
		}
		if !bytes.Equal(a.Data, b.Data) {
			return "N.data"
		}
		return "N.fields"
	case "EAP":
		x, y := a.EAP, b.EAP
		if x == nil || y == nil {
			return "EAP.nil"
		}
		if x.Kind != y.Kind {
			return "EAP.kind"
		}
		if x.Code != y.Code || x.ID != y.ID {
			return "EAP.header"
		}
		if x.Kind == "aka" {
			if x.SubType != y.SubType {
				return "EAP:aka.subtype"
			}
			// first differing attribute type
			i, j := 0, 0
			for i < len(x.Attrs) || j < len(y.Attrs) {
				switch {
				case i >= len(x.Attrs):
					return fmt.Sprintf("EAP:aka.spurious_attr")
				case j >= len(y.Attrs):
					return fmt.Sprintf("EAP:aka.missing_attr%d", x.Attrs[i].Type)
				case x.Attrs[i].Type < y.Attrs[j].Type:
					return fmt.Sprintf("EAP:aka.missing_attr%d", x.Attrs[i].Type)
				case x.Attrs[i].Type > y.Attrs[j].Type:
					return fmt.Sprintf("EAP:aka.spurious_attr")
				case !bytes.Equal(x.Attrs[i].Value, y.Attrs[j].Value):
					return fmt.Sprintf("EAP:aka.attr%d.value", x.Attrs[i].Type)
				}
				i++
				j++
			}
		}
		return "EAP:" + x.Kind
	}
	return k
}

var (
	reDigits = regexp.MustCompile(`[0-9]+`)
	reHex    = regexp.MustCompile(`0x[0-9a-fA-F]+`)
)

// normMsg strips numbers from a panic / error text so it can serve as a key.
func normMsg(s string) string {
	s = reHex.ReplaceAllString(s, "N")
	s = reDigits.ReplaceAllString(s, "N")
	if len(s) > 120 {
		s = s[:120]
	}
	return s
}

func panicKey(r *callResult) string {
	return "panic@" + r.Frame + ":" + normMsg(r.Panic)
}

func jsonOf(v any) string {
	b, err := json.Marshal(v)
	if err != nil {
		return fmt.Sprintf("<%v>", err)
	}
	if len(b) > 900 {
		return string(b[:900]) + "…"
	}
	return string(b)
}

// errKey reduces a (possibly wrapped, possibly stack-carrying) library error to
// its innermost message, normalised, for use as a finding key.
func errKey(err error) string {
	if err == nil {
		return ""
	}
	lines := strings.Split(err.Error(), "\n")
	first := lines[0]
	if i := strings.LastIndex(first, ": "); i >= 0 {
		first = first[i+2:]
	}
	key := first
	if len(lines) > 1 && !strings.HasPrefix(lines[1], "github.com") && !strings.HasPrefix(lines[1], "\t") {
		key += " / " + lines[1]
	}
	return normMsg(key)
}
