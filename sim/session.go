package main

import (
	"bytes"
	"fmt"
	"math/big"

	"github.com/free5gc/ike/message"
	"github.com/free5gc/ike/security"
)

// ---------------------------------------------------------------------------
// Session ops shared by C01/C02/C06/C08/C17/C18/C20: install an SA at two
// endpoints, send (protect) and deliver (receive path + unprotect).
// ---------------------------------------------------------------------------

func init() {
	ops["sa"] = opSA
	ops["send"] = opSend
	ops["deliver"] = opDeliver
}

func opSA(w *World, s *Step) (string, string) {
	if s.Suite == nil {
		return "nosuite", "nosuite"
	}
	sa := &SA{Suite: *s.Suite}
	w.sas[s.SA] = sa
	mode := s.Mode
	if mode == "" {
		mode = "direct"
	}
	var err error
	switch mode {
	case "direct":
		if s.Keys == nil {
			return "nokeys", "nokeys"
		}
		sa.Keys = s.Keys
		for i := 0; i < 2 && err == nil; i++ {
			sa.Obj[i], err = newKeyObj(sa.Suite, sa.Keys)
		}
	case "kdf":
		for i := 0; i < 2 && err == nil; i++ {
			sa.Obj[i], err = kdfKeyObj(sa.Suite, s.Nonce, s.Secret, s.SpiI, s.SpiR)
		}
		if err == nil {
			sa.Keys = rawKeysOf(sa.Obj[0])
		}
	case "rekey":
		// each endpoint makes the new SA's key object as a copy of the old one (keeping the negotiated algorithms)
		// and keys it again with the new exchange's values
		for i := 0; i < 2 && err == nil; i++ {
			var old *security.IKESAKey
			old, err = kdfKeyObj(sa.Suite, append(clone(s.Nonce2), 1), append(clone(s.Secret), 2), s.SpiR, s.SpiI)
			if err != nil {
				break
			}
			cp := *old
			res := &callResult{}
			guard(res, func() { res.Err = cp.GenerateKeyForIKESA(clone(s.Nonce), clone(s.Secret), s.SpiI, s.SpiR) })
			if res.class() == "ok" {
				sa.Obj[i] = &cp
				w.stats.inc("sa_rekeyed_on_a_copy_of_the_old_object")
			} else {
				// refusing to key an object twice is the library's right; use a new object then
				sa.Obj[i], err = kdfKeyObj(sa.Suite, s.Nonce, s.Secret, s.SpiI, s.SpiR)
			}
		}
		if err == nil {
			sa.Keys = rawKeysOf(sa.Obj[0])
		}
	case "dh":
		sa.Obj[0], sa.Obj[1], err = dhInstall(w, sa.Suite, s)
		if err == nil {
			sa.Keys = rawKeysOf(sa.Obj[0])
		}
	default:
		return "badmode", "badmode"
	}
	if err != nil {
		w.stats.inc("sa_install_failed")
		if w.prop != "C18" {
			w.violate("sa_install_failed", sa.Suite.String()+"/"+mode, "installing SA %s (%s) failed: %v", sa.Suite, mode, err)
		}
		return "fail:" + errStr(err), mode + ":fail"
	}
	sa.OK = true
	for i := 0; i < 2; i++ {
		sa.Spy[i] = spied(sa.Obj[i], &sa.Log, i == 0)
	}
	w.stats.inc("sa_installed_" + mode)
	return fmt.Sprintf("ok:%s:%x", sa.Suite, fnv1a(0, sa.Keys.SKei)), mode + ":" + sa.Suite.String()
}

func kdfKeyObj(su Suite, nonce, secret []byte, spiI, spiR uint64) (obj *security.IKESAKey, err error) {
	defer func() {
		if p := recover(); p != nil {
			obj, err = nil, fmt.Errorf("panic in GenerateKeyForIKESA: %v", p)
		}
	}()
	o := &security.IKESAKey{DhInfo: libDH(su.DH), EncrInfo: libEncr(su.Encr), IntegInfo: libInteg(su.Integ), PrfInfo: libPrf(su.Prf)}
	if err := o.GenerateKeyForIKESA(clone(nonce), clone(secret), spiI, spiR); err != nil {
		return nil, err
	}
	return o, nil
}

// dhInstall performs the two-party key agreement with real library code:
// initiator exponent from GenerateRandomNumber (Rand), responder through
// NewIKESAKey (Rand2). Values are handed over in memory.
func dhInstall(w *World, su Suite, s *Step) (oi, or *security.IKESAKey, err error) {
	defer func() {
		if p := recover(); p != nil {
			err = fmt.Errorf("panic in DH install: %v", p)
		}
	}()
	nonces := append(clone(s.Nonce), s.Nonce2...)
	oi = &security.IKESAKey{DhInfo: libDH(su.DH), EncrInfo: libEncr(su.Encr), IntegInfo: libInteg(su.Integ), PrfInfo: libPrf(su.Prf)}
	sc := RandScript{Seed: 11}
	if s.Rand != nil {
		sc = *s.Rand
	}
	simRand.begin(sc)
	x, e := security.GenerateRandomNumber()
	simRand.end()
	if e != nil {
		return nil, nil, e
	}
	pubI := oi.DhInfo.GetPublicValue(x)
	prop, e := oi.ToProposal()
	if e != nil {
		return nil, nil, e
	}
	sc2 := RandScript{Seed: 12}
	if s.Rand2 != nil {
		sc2 = *s.Rand2
	}
	simRand.begin(sc2)
	or, pubR, e := security.NewIKESAKey(prop, pubI, clone(nonces), s.SpiI, s.SpiR)
	simRand.end()
	if e != nil {
		return nil, nil, e
	}
	shared := oi.DhInfo.GetSharedKey(x, new(big.Int).SetBytes(pubR))
	if e := oi.GenerateKeyForIKESA(clone(nonces), shared, s.SpiI, s.SpiR); e != nil {
		return nil, nil, e
	}
	return oi, or, nil
}

// keyFor picks the key object a step asks for.
func (w *World) keyFor(sa *SA, role string, obj string, spy bool) (*security.IKESAKey, error) {
	switch obj {
	case "", "long":
		if spy {
			return sa.Spy[side(role)], nil
		}
		return sa.Obj[side(role)], nil
	case "peer": // the other endpoint's long-lived object (same object serves both roles)
		if spy {
			return sa.Spy[1-side(role)], nil
		}
		return sa.Obj[1-side(role)], nil
	case "twin":
		o, err := newKeyObj(sa.Suite, sa.Keys)
		if err != nil {
			return nil, err
		}
		if spy {
			sa.twins++
			return spied(o, &sa.Log, sa.twins%2 == 0), nil
		}
		return o, nil
	}
	return nil, fmt.Errorf("unknown obj %q", obj)
}

type sendCtx struct {
	w          *World
	s          *Step
	sa         *SA
	msg        *message.IKEMessage
	key        *security.IKESAKey
	out        []byte
	res        *callResult
	orig       message.IKEPayloadContainer // payload objects as built (kept by the harness)
	retried    bool
	firstErr   error
	callerList message.IKEPayloadContainer
}

var sendHooks = map[string]func(c *sendCtx){}

func opSend(w *World, s *Step) (string, string) {
	if s.Msg == nil {
		return "nomsg", "nomsg"
	}
	var sa *SA
	if !s.NilKey {
		sa = w.sa(s.SA)
		if sa == nil {
			w.stats.inc("noop_missing_sa")
			return "nosa", "nosa"
		}
	}
	msg, err := s.Msg.build()
	if err != nil {
		w.stats.inc("build_failed")
		return "builderr:" + errStr(err), "builderr"
	}
	c := &sendCtx{w: w, s: s, sa: sa, msg: msg}
	c.orig = append(c.orig, msg.Payloads...)
	c.callerList = msg.Payloads // the very slice the caller handed to NewMessage and keeps
	if !s.NilKey {
		c.key, err = w.keyFor(sa, s.From, s.Obj, false)
		if err != nil {
			return "keyerr", "keyerr"
		}
	}
	if s.N > 1 && c.key != nil {
		// a busy SA: N-1 earlier messages protected on the same key object (not inspected one by one)
		for i := 1; i < s.N; i++ {
			if m2, err := s.Msg.build(); err == nil {
				protect(m2, c.key, s.From, &RandScript{Seed: uint64(i)})
			}
		}
		w.stats.add("soak_protect_calls", int64(s.N-1))
		w.stats.inc("probe_65536_operations_on_one_key_object")
	}
	c.out, c.res = protect(msg, c.key, s.From, s.Rand)
	if c.res.RandSt.fired {
		w.stats.inc("fault_rand_failure_fired")
		if s.Retry && c.res.class() == "err" {
			// the sender retries on the same message object once the source is healthy again
			w.stats.inc("fault_rand_failure_then_retry_same_message")
			c.firstErr = c.res.Err
			c.out, c.res = protect(msg, c.key, s.From, &RandScript{Seed: s.Rand.Seed ^ 0x7e7e})
			c.retried = true
		}
	}
	if s.Rand != nil && s.Rand.Chunk > 0 && c.res.RandSt.calls > 0 {
		w.stats.inc("fault_rand_short_reads")
	}
	d := &Dgram{SA: s.SA, From: s.From, Spec: s.Msg, NilKey: s.NilKey}
	if c.res.class() == "ok" {
		d.Bytes = clone(c.out)
		d.Genuine = true
	}
	w.dgrams[s.Dgram] = d
	w.stats.inc("send_" + c.res.class())
	if h := sendHooks[w.prop]; h != nil {
		h(c)
	}
	suite := "plain"
	if sa != nil {
		suite = sa.Suite.String()
	}
	obs := fmt.Sprintf("%s:%x:%s", c.res.class(), fnv1a(0, c.out), errClass(c.res))
	abs := fmt.Sprintf("%s:%s:%s:%s", suite, s.From, s.Msg.kinds(), c.res.class())
	return obs, abs
}

func errClass(r *callResult) string {
	if r.Panic != "" {
		return "panic@" + r.Frame
	}
	if r.Err != nil {
		return "err"
	}
	return ""
}

type deliverCtx struct {
	w      *World
	s      *Step
	d      *Dgram
	sa     *SA // receiving SA (nil for a nil-key receiver)
	toRole string
	wire   []byte // what the network delivered
	buf    []byte // the receive buffer handed to the library
	key    *security.IKESAKey
	msg    *message.IKEMessage
	res    *callResult
	faulty bool
}

var deliverHooks = map[string]func(c *deliverCtx){}

func opDeliver(w *World, s *Step) (string, string) {
	d := w.dgram(s.Dgram)
	if d == nil {
		w.stats.inc("noop_missing_dgram")
		return "nodgram", "nodgram"
	}
	c := &deliverCtx{w: w, s: s, d: d}
	c.toRole = s.To
	if c.toRole == "" {
		c.toRole = other(d.From)
	}
	toSA := d.SA
	if s.ToSA != nil {
		toSA = *s.ToSA
	}
	nilKeyRx := d.NilKey && s.ToSA == nil
	if !nilKeyRx {
		c.sa = w.sa(toSA)
		if c.sa == nil {
			w.stats.inc("noop_missing_sa")
			return "nosa", "nosa"
		}
	}
	c.wire = w.applyFault(d.Bytes, s.Fault)
	if c.wire == nil {
		w.stats.inc("fault_inapplicable")
		return "nofault", "nofault"
	}
	fk := "none"
	if s.Fault != nil {
		fk = s.Fault.Kind
		c.faulty = true
		w.stats.inc("fault_" + fk)
	}
	if toSA != d.SA && !d.NilKey {
		w.stats.inc("fault_crosskey")
		fk += "+crosskey"
	}
	if c.toRole == d.From && !d.NilKey {
		w.stats.inc("fault_reflect")
		fk += "+reflect"
	}
	rx := RxOpts{}
	if s.Rx != nil {
		rx = *s.Rx
	}
	if w.prop == "C20" {
		c.buf = w.arenaBuf(c.wire, rx.Spare)
	} else {
		c.buf = rxBuffer(c.wire, rx.Spare)
	}
	if c.sa != nil {
		var err error
		c.key, err = w.keyFor(c.sa, c.toRole, s.Obj, w.prop == "C02")
		if err != nil {
			return "keyerr", "keyerr"
		}
		c.sa.Log.Store(&spyLog{})
	}
	if s.N > 1 && c.key != nil {
		// a flood: the same datagram presented N-1 times before (not inspected one by one)
		for i := 1; i < s.N; i++ {
			unprotect(rxBuffer(c.wire, 0), c.key, c.toRole, false)
		}
		w.stats.add("soak_unprotect_calls", int64(s.N-1))
		w.stats.inc("probe_65536_operations_on_one_key_object")
	}
	var before []byte
	if w.prop == "C18" {
		before = clone(c.buf[:cap(c.buf)])
	}
	if rx.WrongFirst && c.sa != nil {
		if wk, err := newKeyObj(c.sa.Suite, genRawKeys(NewRng(fnv1a(0x33, c.sa.Keys.SKd)), c.sa.Suite)); err == nil {
			unprotect(c.buf, wk, c.toRole, rx.PreHdr)
			w.stats.inc("fault_same_buffer_first_tried_with_another_sa")
			c.sa.Log.Store(&spyLog{})
		}
	}
	c.msg, c.res = unprotect(c.buf, c.key, c.toRole, rx.PreHdr, rx.Hdr28, rx.HdrOther)
	if c.sa != nil {
		c.res.Spy = c.sa.Log.Load()
	}
	w.stats.inc("deliver_" + c.res.class())
	if w.prop == "C18" && !bytes.Equal(before, c.buf[:cap(c.buf)]) {
		w.violate("input_slice_written", "DecodeDecrypt", "DecodeDecrypt wrote into its input slice (or the spare capacity behind it): a concurrent decoder sharing that slice read-only would see the change")
	}
	if h := deliverHooks[w.prop]; h != nil {
		h(c)
	}
	if rx.Redeliver && c.sa != nil {
		// second presentation of the SAME buffer to a decoder with its own key object
		first := c.res.class()
		w.stats.inc("fault_same_buffer_presented_twice")
		c.wire = clone(c.buf)
		if k2, err := w.keyFor(c.sa, c.toRole, "twin", w.prop == "C02"); err == nil {
			c.key = k2
			c.sa.Log.Store(&spyLog{})
			c.msg, c.res = unprotect(c.buf, c.key, c.toRole, rx.PreHdr, rx.Hdr28, rx.HdrOther)
			c.res.Spy = c.sa.Log.Load()
			w.stats.inc("deliver_" + c.res.class())
			if h := deliverHooks[w.prop]; h != nil {
				h(c)
			}
			if first != c.res.class() {
				w.stats.inc("probe_second_presentation_differs")
			}
		}
	}
	if w.pendingExpand != nil {
		return c.res.class(), "" // sub-step of a sweep: the sweep summarises
	}
	suite := "plain"
	if c.sa != nil {
		suite = c.sa.Suite.String()
	}
	obs := fmt.Sprintf("%s:%s", c.res.class(), errClass(c.res))
	if c.res.class() == "ok" {
		obs += fmt.Sprintf(":%x", fnv1a(0, extract(c.msg).canon()))
	}
	hdr := "nohdr"
	if rx.PreHdr {
		hdr = "prehdr"
	}
	abs := fmt.Sprintf("%s:%s:%s:%s:%s:%s", suite, c.toRole, fk, hdr, s.Obj, c.res.class())
	return obs, abs
}

// sameBytes treats nil and empty as equal.
func sameBytes(a, b []byte) bool { return bytes.Equal(a, b) }
