package main

// schedAbort is the panic value used to unwind a task when the scheduler is
// torn down; guard() lets it pass.
type schedAbort struct{}

var schedHook func(site string)

// schedYield is called at every simulator-owned yield point (SimRand reads,
// spy calls, and - in the instrumented build - before every library statement).
func schedYield(site string) {
	if schedHook != nil && !yieldMute {
		schedHook(site)
	}
}
