package main

import (
	"bufio"
	"context"
	"encoding/gob"
	"encoding/json"
	"fmt"
	"os"
	"os/exec"
	"path/filepath"
	"runtime"
	"runtime/pprof"
	"sort"
	"strconv"
	"strings"
	"time"
)

// ---------------------------------------------------------------------------
// Property table, worker processes, aggregation, shrinking, replay, evidence.
// ---------------------------------------------------------------------------

type Components struct {
	Real []string `json:"real"`
	Stub []string `json:"stub"`
}

var defaultComponents = Components{
	Real: []string{"github.com/free5gc/ike (ike, message, eap, security/*): every call made by the scenarios runs the repository's code", "Go standard library crypto it calls"},
	Stub: []string{"random source (SimRand behind crypto/rand.Reader)", "wire / in-flight bag and receive buffers", "protocol drivers of both endpoints (decide what to send and when)", "reference peer (independent RFC implementation, /verif/sim/ref)"},
}

type PropDef struct {
	ID         string
	Level      string
	Gen        func(r *Rng, idx int, tier string) *Scenario
	Count      map[string]int
	Rule       string
	Components Components
	// Binary needs: "" plain, "yield" (AST-instrumented copy), "race"
	Needs []string
}

var props = map[string]*PropDef{}

func baseSeed(prop string, seed uint64) uint64 {
	return mix(seed, fnvStr(0, prop))
}

func genScenario(p *PropDef, seed uint64, idx int, tier string) *Scenario {
	s := mix(baseSeed(p.ID, seed), uint64(idx))
	sc := p.Gen(NewRng(s), idx, tier)
	sc.Prop, sc.Seed, sc.Index = p.ID, seed, idx
	return sc
}

// ---------------------------------------------------------------------------
// worker
// ---------------------------------------------------------------------------

type WorkerViol struct {
	Index int
	V     Violation
	// the worker's index sequence (lo+wi, +wn, ...): needed when a violation
	// depends on state the LIBRARY kept from earlier scenarios in that process
	Lo, Wi, Wn int
	Bin        string
	Env        []string
}

type WorkerResult struct {
	Evals   int
	Nontriv int
	Hashes  []uint64 // abstract-trace hashes of non-trivial scenarios
	Stats   map[string]int64
	Viols   []WorkerViol
	Samples []string       // JSON of a few scenarios
	DetHash map[int]uint64 // index -> full trace hash (determinism sample)
	Harness string
}

func traceHash(res *Result) uint64 {
	h := uint64(0)
	for _, t := range res.Trace {
		h = fnvStr(h, t)
		h = fnv1a(h, []byte{0})
	}
	for _, v := range res.Viol {
		h = fnvStr(h, v.id())
	}
	return h
}

func workerMain(args []string) int {
	if len(args) < 7 {
		fmt.Fprintln(os.Stderr, "usage: worker <prop> <tier> <seed> <w> <W> <lo> <hi> [det]")
		return 2
	}
	p := props[args[0]]
	tier := args[1]
	seed, _ := strconv.ParseUint(args[2], 10, 64)
	wi, _ := strconv.Atoi(args[3])
	wn, _ := strconv.Atoi(args[4])
	lo, _ := strconv.Atoi(args[5])
	count, _ := strconv.Atoi(args[6])
	det := len(args) > 7 && args[7] == "det"
	announce := os.Getenv("IKESIM_C18_MODE") == "race"
	installSimRand()
	if pf := os.Getenv("IKESIM_PROF"); pf != "" {
		if f, err := os.Create(pf); err == nil {
			pprof.StartCPUProfile(f)
			defer pprof.StopCPUProfile()
		}
	}
	out := &WorkerResult{Stats: map[string]int64{}, DetHash: map[int]uint64{}}
	seen := map[uint64]bool{}
	violSeen := map[string]bool{}
	stats := newStats()

	var curIdx int
	var wd *time.Timer
	wd = time.AfterFunc(time.Hour, func() {})
	defer wd.Stop()
	enc := gob.NewEncoder(os.Stdout)

	skip := map[int]bool{}
	for _, f := range strings.Split(os.Getenv("IKESIM_SKIP"), ",") {
		if v, err := strconv.Atoi(f); err == nil {
			skip[v] = true
		}
	}
	for idx := lo + wi; idx < count; idx += wn {
		curIdx = idx
		if skip[idx] {
			stats.inc("c18_serialized_schedule_blocked_by_parking_skipped")
			continue
		}
		if announce {
			fmt.Fprintf(os.Stderr, "RUNNING index=%d\n", idx)
		}
		wd.Stop()
		ci := curIdx
		wd = time.AfterFunc(120*time.Second, func() {
			// a hang: report and die; the parent turns it into a violation
			fmt.Fprintf(os.Stderr, "HANG index=%d\n", ci)
			os.Exit(3)
		})
		sc := genScenario(p, seed, idx, tier)
		res := runGuarded(sc)
		out.Evals++
		stats.merge(res.Stats)
		if res.Nontriv {
			out.Nontriv++
			if !seen[res.Abs] {
				seen[res.Abs] = true
				out.Hashes = append(out.Hashes, res.Abs)
			}
		}
		for _, v := range res.Viol {
			if !violSeen[v.id()] && len(out.Viols) < 64 {
				violSeen[v.id()] = true
				out.Viols = append(out.Viols, WorkerViol{Index: idx, V: v, Lo: lo, Wi: wi, Wn: wn})
			}
		}
		if len(out.Samples) < 2 && res.Nontriv && len(sc.json()) < 6000 {
			out.Samples = append(out.Samples, string(sc.json()))
		}
		// determinism sample: every 50th scenario is hashed (the parent has
		// another worker re-execute it and compares)
		if det || idx%50 == 0 {
			out.DetHash[idx] = traceHash(res)
		}
	}
	if simRand.idleUsed > 0 {
		out.Harness = fmt.Sprintf("random source was read %d times outside any step", simRand.idleUsed)
	}
	out.Stats = stats.C
	if err := enc.Encode(out); err != nil {
		fmt.Fprintln(os.Stderr, "worker: encode:", err)
		return 2
	}
	return 0
}

// runGuarded executes a scenario; a harnessError panic is fatal (exit 2).
func runGuarded(sc *Scenario) *Result {
	return runScenario(sc)
}

// ---------------------------------------------------------------------------
// parent
// ---------------------------------------------------------------------------

type Evidence struct {
	PropertyID  string         `json:"property_id"`
	Tier        string         `json:"tier"`
	Seed        int64          `json:"seed"`
	Level       string         `json:"level"`
	Coverage    map[string]any `json:"coverage"`
	Assumptions []string       `json:"assumptions"`
	WallS       float64        `json:"wall_s"`
	Violations  int            `json:"violations"`
}

func verifDir() string {
	if d := os.Getenv("VERIF_DIR"); d != "" {
		return d
	}
	return "/verif"
}

func envSeed() uint64 {
	if s := os.Getenv("VERIF_SEED"); s != "" {
		if v, err := strconv.ParseUint(s, 10, 64); err == nil {
			return v
		}
		if v, err := strconv.ParseInt(s, 10, 64); err == nil {
			return uint64(v)
		}
	}
	return 1
}

func workerCount() int {
	n := runtime.NumCPU()
	if s := os.Getenv("VERIF_WORKERS"); s != "" {
		if v, err := strconv.Atoi(s); err == nil && v > 0 {
			n = v
		}
	}
	if n > 32 {
		n = 32
	}
	return n
}

// spawnWorkerClassifyingBlocks is spawnWorker for the serialized C18 phase. There the simulator parks tasks at
// yield points; if a parked task holds something the running task needs and the simulator does not know about
// (locks are tracked, a hand-made semaphore would not be), the running task blocks for real and the watchdog
// fires although the library is fine. Such a watchdog hit is re-examined in a fresh process with the same tasks
// run one after the other (nobody parked): if that completes, the block was made by the simulator; the scenario
// is skipped, counted, and the worker's range is run again without it. A block that persists is a hang.
func spawnWorkerClassifyingBlocks(self string, env []string, args []string) (*WorkerResult, string, error) {
	var skip []string
	for {
		e := append([]string{}, env...)
		if len(skip) >= 2 {
			// the library synchronises in a way the simulator cannot see (not a tracked lock): parking tasks is not
			// possible without blocking others. This worker's range is executed without interleaving; the evidence
			// says so (c18_serialized_phase_degraded_to_sequential); the parallel phase still interleaves for real.
			e = append(e, "IKESIM_C18_SEQUENTIAL=1", "IKESIM_C18_DEGRADED=1")
		} else if len(skip) > 0 {
			e = append(e, "IKESIM_SKIP="+strings.Join(skip, ","))
		}
		r, se, err := spawnWorker(self, e, args)
		if err == nil || len(skip) >= 2 {
			return r, se, err
		}
		idx, ok := parseHang(se)
		if !ok {
			return r, se, err
		}
		seq := append(append([]string{}, env...), "IKESIM_C18_SEQUENTIAL=1")
		_, se2, err2 := spawnWorker(self, seq, []string{args[0], args[1], args[2], "0", "1", strconv.Itoa(idx), strconv.Itoa(idx + 1)})
		if err2 != nil {
			if _, hang := parseHang(se2); hang {
				return r, se, err // blocks without any parking as well: a hang of the library
			}
			return r, se2, err2
		}
		skip = append(skip, strconv.Itoa(idx))
	}
}

func spawnWorker(self string, env []string, args []string) (*WorkerResult, string, error) {
	cmd := exec.Command(self, append([]string{"worker"}, args...)...)
	cmd.Env = append(os.Environ(), env...)
	stdout, err := cmd.StdoutPipe()
	if err != nil {
		return nil, "", err
	}
	var stderr strings.Builder
	cmd.Stderr = &stderr
	if err := cmd.Start(); err != nil {
		return nil, "", err
	}
	var res WorkerResult
	decErr := gob.NewDecoder(bufio.NewReaderSize(stdout, 1<<20)).Decode(&res)
	werr := cmd.Wait()
	if werr != nil {
		return nil, stderr.String(), fmt.Errorf("worker exited: %v", werr)
	}
	if decErr != nil {
		return nil, stderr.String(), fmt.Errorf("worker result: %v", decErr)
	}
	return &res, stderr.String(), nil
}

type knownFindings struct {
	findings map[string]string // "Cxx|oracle|key" -> description
}

func loadKnown() *knownFindings {
	k := &knownFindings{findings: map[string]string{}}
	f, err := os.Open(filepath.Join(verifDir(), "known_findings.txt"))
	if err != nil {
		return k
	}
	defer f.Close()
	sc := bufio.NewScanner(f)
	for sc.Scan() {
		line := strings.TrimSpace(sc.Text())
		// finding: property=C02 id=<oracle|key> <what fails>
		if !strings.HasPrefix(line, "finding:") {
			continue // "fixed:" lines and comments suppress nothing
		}
		var prop, id string
		rest := strings.TrimSpace(strings.TrimPrefix(line, "finding:"))
		for _, f := range strings.Fields(rest) {
			if strings.HasPrefix(f, "property=") {
				prop = strings.TrimPrefix(f, "property=")
			}
		}
		if i := strings.Index(rest, "id=\""); i >= 0 {
			j := strings.Index(rest[i+4:], "\"")
			if j >= 0 {
				id = rest[i+4 : i+4+j]
				k.findings[prop+"|"+id] = strings.TrimSpace(rest[i+4+j+1:])
			}
		}
	}
	return k
}

func runMain(propID, tier string) int {
	p := props[propID]
	if p == nil {
		fmt.Fprintf(os.Stderr, "unknown property %s\n", propID)
		return 2
	}
	if p.Gen == nil {
		fmt.Fprintf(os.Stderr, "property %s has no generator\n", propID)
		return 2
	}
	seed := envSeed()
	count := p.Count[tier]
	if s := os.Getenv("VERIF_COUNT"); s != "" {
		if v, err := strconv.Atoi(s); err == nil && v > 0 {
			count = v
		}
	}
	if sc := os.Getenv("VERIF_SCALE"); sc != "" {
		// experiments only (e.g. a fast false-alarm smoke run): scale the tier's scenario count
		if f, err := strconv.ParseFloat(sc, 64); err == nil && f > 0 {
			count = int(float64(count) * f)
			if count < 16 {
				count = 16
			}
			if propID == "C18" {
				os.Setenv("VERIF_COUNT", strconv.Itoa(count))
			}
		}
	}
	if count == 0 {
		fmt.Fprintf(os.Stderr, "no scenario count for tier %q\n", tier)
		return 2
	}
	start := time.Now()
	self, _ := os.Executable()
	wn := workerCount()
	if wn > count {
		wn = count
	}
	fmt.Printf("ikesim: property=%s tier=%s VERIF_SEED=%d scenarios=%d workers=%d\n", propID, tier, seed, count, wn)
	if err := selfTestRef(); err != nil {
		fmt.Fprintln(os.Stderr, "reference self-test failed:", err)
		return 2
	}
	type wr struct {
		res    *WorkerResult
		stderr string
		err    error
		bin    string
		env    []string
	}
	type phase struct {
		bin    string
		env    []string
		lo, hi int
		chunk  int
	}
	phases := []phase{{self, nil, 0, count, 0}}
	if propID == "C18" {
		yb, rb := os.Getenv("IKESIM_YIELD_BIN"), os.Getenv("IKESIM_RACE_BIN")
		if yb == "" || rb == "" {
			fmt.Fprintln(os.Stderr, "C18 needs IKESIM_YIELD_BIN and IKESIM_RACE_BIN (run it through check.sh)")
			return 2
		}
		ns := c18Serialized[tier]
		if os.Getenv("VERIF_COUNT") != "" {
			ns = count * 5 / 6
		}
		extraCoverage["yield_sites_inserted"] = os.Getenv("IKESIM_YIELD_SITES")
		extraCoverage["serialized_scenarios"] = ns
		extraCoverage["parallel_scenarios"] = count - ns
		os.Setenv("IKESIM_C18_NSER", strconv.Itoa(ns))
		phases = []phase{
			{yb, []string{"IKESIM_C18_MODE=yield"}, 0, ns, 0},
			{rb, []string{"IKESIM_C18_MODE=race", "GORACE=halt_on_error=1 exitcode=66"}, ns, count, 10},
		}
	}
	var results []wr
	for _, ph := range phases {
		if ph.chunk > 0 {
			// many short-lived worker processes: every process starts cold, so lazily initialised library
			// state is exercised by overlapping FIRST uses again and again (C18 parallel phase)
			type job struct{ lo, hi int }
			var jobs []job
			for lo := ph.lo; lo < ph.hi; lo += ph.chunk {
				jobs = append(jobs, job{lo, min(lo+ph.chunk, ph.hi)})
			}
			pres := make([]wr, len(jobs))
			sem := make(chan struct{}, wn)
			done := make(chan int, len(jobs))
			for i, j := range jobs {
				go func(i int, j job) {
					sem <- struct{}{}
					r, se, err := spawnWorker(ph.bin, ph.env, []string{propID, tier, strconv.FormatUint(seed, 10), "0", "1", strconv.Itoa(j.lo), strconv.Itoa(j.hi)})
					<-sem
					pres[i] = wr{r, se, err, ph.bin, ph.env}
					done <- i
				}(i, j)
			}
			for range jobs {
				<-done
			}
			extraCoverage["cold_process_starts_parallel_phase"] = len(jobs)
			results = append(results, pres...)
			continue
		}
		n := wn
		if ph.hi-ph.lo < n {
			n = ph.hi - ph.lo
		}
		if n <= 0 {
			continue
		}
		pres := make([]wr, n)
		done := make(chan int, n)
		for i := 0; i < n; i++ {
			go func(i int) {
				spawn := spawnWorker
				if propID == "C18" {
					spawn = spawnWorkerClassifyingBlocks
				}
				r, se, err := spawn(ph.bin, ph.env, []string{propID, tier, strconv.FormatUint(seed, 10), strconv.Itoa(i), strconv.Itoa(n), strconv.Itoa(ph.lo), strconv.Itoa(ph.hi)})
				pres[i] = wr{r, se, err, ph.bin, ph.env}
				done <- i
			}(i)
		}
		for i := 0; i < n; i++ {
			<-done
		}
		results = append(results, pres...)
	}
	installSimRand()
	agg := newStats()
	hashes := map[uint64]bool{}
	var viols []WorkerViol
	var samples []string
	evals, nontriv := 0, 0
	det := map[int]uint64{}
	for i, r := range results {
		if r.err != nil {
			// a hang or a fatal runtime error inside library code
			if idx, ok := parseHang(r.stderr); ok {
				viols = append(viols, WorkerViol{Index: idx, V: Violation{Prop: propID, Oracle: "hang", Key: "watchdog", Detail: "scenario did not finish within the watchdog"}})
				continue
			}
			if idx, msg, ok := parseFatal(r.stderr); ok {
				or := "fatal"
				if strings.HasPrefix(msg, "DATA RACE") {
					or = "data_race"
				}
				viols = append(viols, WorkerViol{Index: idx, V: Violation{Prop: propID, Oracle: or, Key: normMsg(msg), Detail: msg + "\n" + raceExcerpt(r.stderr)}})
				continue
			}
			fmt.Fprintf(os.Stderr, "worker %d failed: %v\n%s\n", i, r.err, tail(r.stderr, 4000))
			return 2
		}
		if r.res.Harness != "" {
			fmt.Fprintf(os.Stderr, "harness error in worker %d: %s\n", i, r.res.Harness)
			return 2
		}
		evals += r.res.Evals
		nontriv += r.res.Nontriv
		for _, h := range r.res.Hashes {
			hashes[h] = true
		}
		for k, v := range r.res.Stats {
			agg.C[k] += v
		}
		for _, v := range r.res.Viols {
			v.Bin, v.Env = r.bin, r.env
			viols = append(viols, v)
		}
		samples = append(samples, r.res.Samples...)
		for k, v := range r.res.DetHash {
			det[k] = v
		}
	}
	// violations: confirm, minimise, write replay files
	sort.Slice(viols, func(i, j int) bool { return viols[i].Index < viols[j].Index })
	known := loadKnown()
	reported := map[string]bool{}
	exit := 0
	nviol := 0
	unconfirmed := 0
	for _, wv := range viols {
		id := wv.V.id()
		if reported[id] {
			continue
		}
		reported[id] = true
		if desc, ok := known.findings[propID+"|"+id]; ok {
			fmt.Printf("KNOWN-FINDING: property=%s %s [%s]\n", propID, desc, id)
			continue
		}
		path := reportViolation(p, seed, tier, wv)
		if path == "" {
			// seen by a worker, not reproduced by any means: never reported as a violation (a replay file must
			// reproduce). It makes the run inconclusive (exit 2) unless another, confirmed violation is reported.
			unconfirmed++
			continue
		}
		nviol++
		fmt.Printf("VIOLATION property=%s replay=%s\n", propID, path)
		fmt.Printf("  oracle=%s key=%s\n  %s\n", wv.V.Oracle, wv.V.Key, strings.ReplaceAll(wv.V.Detail, "\n", "\n  "))
		exit = 1
		if nviol >= 8 {
			break
		}
	}
	if unconfirmed > 0 && nviol == 0 {
		fmt.Fprintf(os.Stderr, "harness error: %d observation(s) of a worker did not reproduce and no violation was confirmed\n", unconfirmed)
		return 2
	}
	// determinism cross-check: re-execute the sampled scenarios in this process
	detIdx := make([]int, 0, len(det))
	for k := range det {
		detIdx = append(detIdx, k)
	}
	sort.Ints(detIdx)
	detChecked := 0
	for _, idx := range detIdx {
		if detChecked >= 400 || propID == "C18" {
			break
		}
		res := runScenario(genScenario(p, seed, idx, tier))
		if traceHash(res) != det[idx] {
			if nviol > 0 {
				fmt.Printf("note: scenario %d gives a different event log when re-executed alone; with violations reported above this points at state the library keeps between calls\n", idx)
				break
			}
			fmt.Fprintf(os.Stderr, "NONDETERMINISM: scenario %d gave a different event log on re-execution\n", idx)
			return 2
		}
		detChecked++
	}

	wall := time.Since(start).Seconds()
	writeEvidence(p, tier, seed, evals, nontriv, len(hashes), agg, samples, wall, nviol, detChecked)
	fmt.Printf("ikesim: property=%s evaluations=%d nontrivial=%d distinct_nontrivial=%d violations=%d wall=%.1fs\n",
		propID, evals, nontriv, len(hashes), nviol, wall)
	return exit
}

func raceExcerpt(stderr string) string {
	i := strings.Index(stderr, "WARNING: DATA RACE")
	if i < 0 {
		i = strings.Index(stderr, "fatal error: ")
	}
	if i < 0 {
		return ""
	}
	e := stderr[i:]
	if len(e) > 3000 {
		e = e[:3000]
	}
	return e
}

func tail(s string, n int) string {
	if len(s) > n {
		return s[len(s)-n:]
	}
	return s
}

func parseHang(stderr string) (int, bool) {
	for _, l := range strings.Split(stderr, "\n") {
		if strings.HasPrefix(l, "HANG index=") {
			v, err := strconv.Atoi(strings.TrimPrefix(l, "HANG index="))
			return v, err == nil
		}
	}
	return 0, false
}

// parseFatal recognises Go runtime fatal errors (e.g. concurrent map access)
// that kill the worker; the worker prints "RUNNING index=N" lines to stderr only
// in modes where that can happen.
func parseFatal(stderr string) (int, string, bool) {
	idx := -1
	for _, l := range strings.Split(stderr, "\n") {
		if strings.HasPrefix(l, "RUNNING index=") {
			if v, err := strconv.Atoi(strings.TrimPrefix(l, "RUNNING index=")); err == nil {
				idx = v
			}
		}
		if strings.HasPrefix(l, "fatal error: ") && idx >= 0 {
			return idx, l, true
		}
		if strings.Contains(l, "WARNING: DATA RACE") && idx >= 0 {
			return idx, "DATA RACE " + raceSite(stderr), true
		}
	}
	return 0, "", false
}

// raceSite extracts the first library function named in a race report.
func raceSite(stderr string) string {
	seen := false
	for _, l := range strings.Split(stderr, "\n") {
		if strings.Contains(l, "WARNING: DATA RACE") {
			seen = true
		}
		l = strings.TrimSpace(l)
		if seen && strings.HasPrefix(l, "github.com/free5gc/ike") {
			if i := strings.Index(l, "("); i > 0 {
				l = l[:i]
			}
			return "in " + strings.TrimPrefix(l, "github.com/free5gc/ike")
		}
	}
	return ""
}

// ---------------------------------------------------------------------------
// shrinking and replay files
// ---------------------------------------------------------------------------

type ReplayFile struct {
	Property  string    `json:"property"`
	Seed      uint64    `json:"seed"`
	Tier      string    `json:"tier"`
	Index     int       `json:"index"`
	Oracle    string    `json:"oracle"`
	Key       string    `json:"key"`
	Detail    string    `json:"detail"`
	Minimised bool      `json:"minimised"`
	OrigSteps int       `json:"original_steps"`
	Scenario  *Scenario `json:"scenario"`
	Trace     []string  `json:"event_trace"`
	// Prelude: scenarios executed earlier in the same process, needed when the
	// violation depends on state the library itself kept between them.
	Flaky       string      `json:"reproduces,omitempty"` // "k/n" when the violation is timing dependent
	Prelude     []*Scenario `json:"prelude,omitempty"`
	PreludeNote string      `json:"prelude_note,omitempty"`
}

func hasViolation(res *Result, id string) *Violation {
	for i := range res.Viol {
		if res.Viol[i].id() == id {
			return &res.Viol[i]
		}
	}
	return nil
}

func reportViolation(p *PropDef, seed uint64, tier string, wv WorkerViol) string {
	dir := filepath.Join(verifDir(), "replays")
	os.MkdirAll(dir, 0o755)
	path := filepath.Join(dir, fmt.Sprintf("%s-%d-%d-%s-%04x.json", p.ID, seed, wv.Index, sanitize(wv.V.Oracle), fnvStr(0, wv.V.id())&0xffff))
	if rp := os.Getenv("IKESIM_REPORT_PATH"); rp != "" {
		path = rp
	}
	rf := &ReplayFile{Property: p.ID, Seed: seed, Tier: tier, Index: wv.Index, Oracle: wv.V.Oracle, Key: wv.V.Key, Detail: wv.V.Detail}
	if p.ID == "C18" && wv.V.Oracle != "hang" && wv.V.Oracle != "fatal" && wv.V.Oracle != "data_race" && !yieldBuild && os.Getenv("IKESIM_YIELD_BIN") != "" {
		// serialized-mode findings reproduce only in the instrumented binary: confirm and shrink there
		ctx, cancel := context.WithTimeout(context.Background(), 10*time.Minute)
		defer cancel()
		cmd := exec.CommandContext(ctx, os.Getenv("IKESIM_YIELD_BIN"), "report", p.ID, tier, strconv.FormatUint(seed, 10), strconv.Itoa(wv.Index), wv.V.Oracle, wv.V.Key, path,
			strconv.Itoa(wv.Lo), strconv.Itoa(wv.Wi), strconv.Itoa(wv.Wn))
		cmd.Env = append(os.Environ(), "IKESIM_C18_MODE=yield")
		cmd.Stderr = os.Stderr
		if err := cmd.Run(); err != nil {
			if ctx.Err() != nil {
				// confirmation / minimisation did not finish (a reduced schedule may block): keep the scenario as the worker saw it
				rf.Scenario = genScenario(p, seed, wv.Index, tier)
				rf.OrigSteps = len(rf.Scenario.Steps)
				rf.Detail += "\n(minimisation did not finish within 10 minutes; the scenario is stored unreduced)"
				writeJSON(path, rf)
				return path
			}
			if ee, ok := err.(*exec.ExitError); ok && ee.ExitCode() == 3 {
				return "" // not reproduced
			}
			fmt.Fprintln(os.Stderr, "harness error: report subprocess:", err)
			os.Exit(2)
		}
		return path
	}
	if wv.V.Oracle == "hang" || wv.V.Oracle == "fatal" || wv.V.Oracle == "data_race" {
		rf.Scenario = genScenario(p, seed, wv.Index, tier)
		rf.OrigSteps = len(rf.Scenario.Steps)
		writeJSON(path, rf)
		return path
	}
	sc := genScenario(p, seed, wv.Index, tier)
	rf.OrigSteps = len(sc.Steps)
	id := wv.V.id()
	res := runScenario(sc)
	v := hasViolation(res, id)
	if v == nil {
		// The worker saw it, a fresh execution of the scenario alone does not: either the
		// harness is nondeterministic (exit 2) or the LIBRARY kept state from earlier
		// scenarios of that worker. Decide by replaying the worker's sequence in a fresh process.
		if pre := reproduceWithPrelude(p, seed, tier, wv, id); pre != nil {
			rf.Scenario = sc
			rf.Prelude = pre
			rf.PreludeNote = "the violation appears only after the prelude scenarios ran in the same process: the library keeps mutable state outside the objects passed in"
			rf.Detail += "\n(depends on library state left behind by earlier operations in the same process; replay runs the prelude first)"
			writeJSON(path, rf)
			return path
		}
		// Last resort: the library may behave differently from run to run because it starts goroutines of
		// its own (the one scheduler the simulator does not own). Re-execute the scenario a number of times.
		hits := 0
		const tries = 30
		for i := 0; i < tries; i++ {
			// the library's own goroutines are scheduled by the Go runtime: vary what it has to work with
			old := runtime.GOMAXPROCS([]int{0, 1, 2}[i%3])
			if hasViolation(runScenario(sc), id) != nil {
				hits++
			}
			runtime.GOMAXPROCS(old)
		}
		if hits > 0 {
			rf.Scenario = sc
			rf.Flaky = fmt.Sprintf("%d/%d", hits, tries)
			rf.Detail += fmt.Sprintf("\n(not deterministic: reproduced in %d of %d re-executions of the same scenario in one process - the library's behaviour depends on real goroutine scheduling, which the simulator does not own; replay re-executes up to %d times)", hits, tries, tries)
			writeJSON(path, rf)
			return path
		}
		rf.Scenario = sc
		rf.Detail += "\n(NOT REPRODUCED: harness nondeterminism)"
		writeJSON(path, rf)
		fmt.Fprintf(os.Stderr, "note: observation %s of scenario %d did not reproduce, neither alone nor after the worker's earlier scenarios nor in %d re-executions\n", id, wv.Index, tries)
		if os.Getenv("IKESIM_REPORT_PATH") != "" {
			os.Exit(3) // report subprocess: tell the parent
		}
		return ""
	}
	min := shrink(sc, id)
	if p.ID == "C18" {
		budget := 400
		min = shrinkC18(sc, id, func(c *Scenario) bool {
			budget--
			return budget > 0 && hasViolation(runScenario(c), id) != nil
		})
	}
	res = runScenario(min)
	if mv := hasViolation(res, id); mv != nil {
		rf.Detail = mv.Detail
	}
	rf.Scenario = min
	rf.Minimised = true
	rf.Trace = res.Trace
	writeJSON(path, rf)
	return path
}

// seqFails runs the given scenario indices, in order, in a FRESH process and
// reports whether the last one shows violation id.
func seqFails(p *PropDef, seed uint64, tier string, wv WorkerViol, id string, idxs []int) bool {
	bin := wv.Bin
	if bin == "" {
		bin, _ = os.Executable()
	}
	strs := make([]string, len(idxs))
	for i, v := range idxs {
		strs[i] = strconv.Itoa(v)
	}
	cmd := exec.Command(bin, "seqcheck", p.ID, tier, strconv.FormatUint(seed, 10), id, strings.Join(strs, ","))
	cmd.Env = append(os.Environ(), wv.Env...)
	err := cmd.Run()
	if ee, ok := err.(*exec.ExitError); ok {
		return ee.ExitCode() == 1
	}
	return false
}

func reproduceWithPrelude(p *PropDef, seed uint64, tier string, wv WorkerViol, id string) []*Scenario {
	if wv.Wn <= 0 {
		return nil
	}
	var pre []int
	for i := wv.Lo + wv.Wi; i < wv.Index; i += wv.Wn {
		pre = append(pre, i)
	}
	if len(pre) == 0 || !seqFails(p, seed, tier, wv, id, append(append([]int{}, pre...), wv.Index)) {
		return nil
	}
	// ddmin over the prelude, each trial in a fresh process
	budget := 80
	try := func(c []int) bool {
		if budget <= 0 {
			return false
		}
		budget--
		return seqFails(p, seed, tier, wv, id, append(append([]int{}, c...), wv.Index))
	}
	n := 2
	for len(pre) >= 2 {
		chunk := (len(pre) + n - 1) / n
		reduced := false
		// try keeping only one chunk (fast path when a single scenario suffices), then dropping one
		for i := 0; i < len(pre) && !reduced; i += chunk {
			end := min(i+chunk, len(pre))
			if keep := pre[i:end]; len(keep) < len(pre) && try(keep) {
				pre, n, reduced = append([]int{}, keep...), 2, true
			}
		}
		for i := 0; i < len(pre) && !reduced; i += chunk {
			end := min(i+chunk, len(pre))
			cand := append(append([]int{}, pre[:i]...), pre[end:]...)
			if len(cand) > 0 && try(cand) {
				pre, n, reduced = cand, max(n-1, 2), true
			}
		}
		if !reduced {
			if n >= len(pre) || budget <= 0 {
				break
			}
			n = min(n*2, len(pre))
		}
	}
	var out []*Scenario
	for _, i := range pre {
		out = append(out, genScenario(p, seed, i, tier))
	}
	return out
}

func seqcheckMain(args []string) int {
	if len(args) < 5 {
		return 2
	}
	p := props[args[0]]
	var seed uint64
	fmt.Sscan(args[2], &seed)
	installSimRand()
	parts := strings.Split(args[4], ",")
	for k, s := range parts {
		idx, _ := strconv.Atoi(s)
		res := runScenario(genScenario(p, seed, idx, args[1]))
		if k == len(parts)-1 && hasViolation(res, args[3]) != nil {
			return 1
		}
	}
	return 0
}

func sanitize(s string) string {
	var sb strings.Builder
	for _, c := range s {
		if (c >= 'a' && c <= 'z') || (c >= 'A' && c <= 'Z') || (c >= '0' && c <= '9') || c == '_' {
			sb.WriteRune(c)
		}
	}
	return sb.String()
}

func writeJSON(path string, v any) {
	b, err := json.MarshalIndent(v, "", " ")
	if err != nil {
		panic(err)
	}
	if err := os.WriteFile(path, append(b, '\n'), 0o644); err != nil {
		fmt.Fprintln(os.Stderr, "write", path, err)
		os.Exit(2)
	}
}

// shrink: replace sweeps by the explicit failing step, ddmin over steps, then
// per-step simplification; a candidate is accepted iff the same oracle id fires.
func shrink(sc *Scenario, id string) *Scenario {
	deadline := time.Now().Add(30 * time.Second)
	budget := 3000
	fails := func(c *Scenario) bool {
		if budget <= 0 || time.Now().After(deadline) {
			return false
		}
		budget--
		return hasViolation(runScenario(c), id) != nil
	}
	cur := sc.clone()
	// 1. expand sweeps
	for round := 0; round < 4; round++ {
		res := runScenario(cur)
		v := hasViolation(res, id)
		if v == nil || v.Expand == nil || v.Step >= len(cur.Steps) {
			break
		}
		cand := cur.clone()
		cand.Steps[v.Step] = *v.Expand
		if fails(cand) {
			cur = cand
		} else {
			break
		}
	}
	// 2. ddmin over the step list
	n := 2
	for len(cur.Steps) >= 2 {
		chunk := (len(cur.Steps) + n - 1) / n
		reduced := false
		for i := 0; i < len(cur.Steps); i += chunk {
			cand := cur.clone()
			end := i + chunk
			if end > len(cand.Steps) {
				end = len(cand.Steps)
			}
			cand.Steps = append(cand.Steps[:i:i], cand.Steps[end:]...)
			if len(cand.Steps) > 0 && fails(cand) {
				cur = cand
				n = max(n-1, 2)
				reduced = true
				break
			}
		}
		if !reduced {
			if n >= len(cur.Steps) {
				break
			}
			n = min(n*2, len(cur.Steps))
		}
		if budget <= 0 {
			break
		}
	}
	// 3. per-step simplification
	for i := range cur.Steps {
		for _, simp := range simplifiers {
			for {
				cand := cur.clone()
				if !simp(&cand.Steps[i]) {
					break
				}
				if fails(cand) {
					cur = cand
				} else {
					break
				}
			}
		}
	}
	return cur
}

var simplifiers = []func(s *Step) bool{
	// drop the last payload
	func(s *Step) bool {
		if s.Msg == nil || len(s.Msg.Payloads) <= 1 {
			return false
		}
		s.Msg.Payloads = s.Msg.Payloads[:len(s.Msg.Payloads)-1]
		return true
	},
	// drop the first payload
	func(s *Step) bool {
		if s.Msg == nil || len(s.Msg.Payloads) <= 1 {
			return false
		}
		s.Msg.Payloads = s.Msg.Payloads[1:]
		return true
	},
	// rand script -> plain stream
	func(s *Step) bool {
		if s.Rand == nil || (s.Rand.Chunk == 0 && s.Rand.PatReads == 0 && len(s.Rand.Prefix) == 0) {
			return false
		}
		s.Rand.Chunk, s.Rand.PatReads, s.Rand.PatByte, s.Rand.Prefix = 0, 0, 0, nil
		return true
	},
	// receive path -> simplest
	func(s *Step) bool {
		if s.Rx == nil || (s.Rx.Spare == 0 && s.Rx.Scribble == "" && s.Rx.Hold == 0) {
			return false
		}
		s.Rx.Spare, s.Rx.Scribble, s.Rx.Hold = 0, "", 0
		return true
	},
	// halve long octet strings in payloads
	func(s *Step) bool {
		if s.Msg == nil {
			return false
		}
		for i := range s.Msg.Payloads {
			p := &s.Msg.Payloads[i]
			if len(p.Data) > 8 {
				p.Data = p.Data[:len(p.Data)/2]
				return true
			}
		}
		return false
	},
	// structural: drop one nested element (proposal, transform, selector, attribute) at a time
	func(s *Step) bool {
		if s.Msg == nil {
			return false
		}
		for i := range s.Msg.Payloads {
			p := &s.Msg.Payloads[i]
			if len(p.Proposals) > 1 {
				p.Proposals = p.Proposals[:len(p.Proposals)-1]
				return true
			}
			for j := range p.Proposals {
				pr := &p.Proposals[j]
				lists := []*[]TransformSpec{&pr.ESN, &pr.DH, &pr.Integ, &pr.Prf, &pr.Encr}
				total := 0
				for _, l := range lists {
					total += len(*l)
				}
				for _, l := range lists {
					if len(*l) > 0 && total > 1 {
						*l = (*l)[:len(*l)-1]
						return true
					}
				}
			}
			if len(p.TS) > 1 {
				p.TS = p.TS[:len(p.TS)-1]
				return true
			}
			if len(p.Attrs) > 1 {
				p.Attrs = p.Attrs[:len(p.Attrs)-1]
				return true
			}
			if p.EAP != nil && len(p.EAP.Attrs) > 1 {
				p.EAP.Attrs = p.EAP.Attrs[:len(p.EAP.Attrs)-1]
				return true
			}
			if len(p.SPIs) > 1 {
				p.SPIs = p.SPIs[:len(p.SPIs)-1]
				p.NumSPI = uint16(len(p.SPIs))
				return true
			}
		}
		return false
	},
	// structural: drop the FIRST nested element
	func(s *Step) bool {
		if s.Msg == nil {
			return false
		}
		for i := range s.Msg.Payloads {
			p := &s.Msg.Payloads[i]
			if len(p.Proposals) > 1 {
				p.Proposals = p.Proposals[1:]
				return true
			}
			if len(p.TS) > 1 {
				p.TS = p.TS[1:]
				return true
			}
			if len(p.Attrs) > 1 {
				p.Attrs = p.Attrs[1:]
				return true
			}
			if p.EAP != nil && len(p.EAP.Attrs) > 1 {
				p.EAP.Attrs = p.EAP.Attrs[1:]
				return true
			}
		}
		return false
	},
	// no bookkeeping noise
	func(s *Step) bool {
		if s.Msg == nil || (s.Msg.HdrNext == 0 && !s.Msg.Junk) {
			return false
		}
		s.Msg.HdrNext, s.Msg.Junk = 0, false
		return true
	},
	// simple header
	func(s *Step) bool {
		if s.Msg == nil || (s.Msg.ISPI == 1 && s.Msg.RSPI == 2) {
			return false
		}
		s.Msg.ISPI, s.Msg.RSPI, s.Msg.Major, s.Msg.Minor, s.Msg.Exch, s.Msg.Flags, s.Msg.MsgID = 1, 2, 2, 0, 37, 8, 0
		return true
	},
}

func replayMain(path string) int {
	b, err := os.ReadFile(path)
	if err != nil {
		fmt.Fprintln(os.Stderr, err)
		return 2
	}
	var rf ReplayFile
	if err := json.Unmarshal(b, &rf); err != nil {
		fmt.Fprintln(os.Stderr, "replay file:", err)
		return 2
	}
	if rf.Scenario == nil {
		fmt.Fprintln(os.Stderr, "replay file has no scenario")
		return 2
	}
	installSimRand()
	id := rf.Oracle + "|" + rf.Key
	fmt.Printf("ikesim replay: property=%s seed=%d index=%d oracle=%s steps=%d\n", rf.Property, rf.Seed, rf.Index, id, len(rf.Scenario.Steps))
	if props[rf.Property] != nil && props[rf.Property].Needs != nil && os.Getenv("IKESIM_C18_MODE") == "" {
		return replaySpecial(&rf, path)
	}
	if rf.Oracle == "data_race" || rf.Oracle == "fatal" {
		// runs in the -race binary: the detector (or the runtime) ends the process itself
		fmt.Fprintf(os.Stderr, "RUNNING index=%d\n", rf.Index)
		runScenario(rf.Scenario)
		fmt.Println("replay: no race / fatal error on this run")
		return 0
	}
	for i, pre := range rf.Prelude {
		pr := runScenario(pre)
		fmt.Printf("  prelude scenario %d (index %d): %d events\n", i, pre.Index, pr.Events)
	}
	res := runScenario(rf.Scenario)
	if rf.Flaky != "" {
		for i := 1; i < 60 && hasViolation(res, id) == nil; i++ {
			old := runtime.GOMAXPROCS([]int{0, 1, 2}[i%3])
			res = runScenario(rf.Scenario)
			runtime.GOMAXPROCS(old)
		}
		fmt.Printf("  (timing-dependent finding, recorded as reproducing %s)\n", rf.Flaky)
	}
	for _, t := range res.Trace {
		fmt.Println("  event:", t)
	}
	if v := hasViolation(res, id); v != nil {
		fmt.Printf("VIOLATION property=%s replay=%s\n  oracle=%s key=%s\n  %s\n", rf.Property, path, v.Oracle, v.Key, strings.ReplaceAll(v.Detail, "\n", "\n  "))
		return 1
	}
	for _, v := range res.Viol {
		fmt.Printf("  (other violation: %s)\n", v.id())
	}
	fmt.Println("replay: the recorded violation did not occur")
	return 0
}

// ---------------------------------------------------------------------------
// evidence
// ---------------------------------------------------------------------------

func writeEvidence(p *PropDef, tier string, seed uint64, evals, nontriv, distinct int, agg *Stats, samples []string, wall float64, nviol int, detChecked int) {
	faults := map[string]int64{}
	probes := map[string]int64{}
	other := map[string]int64{}
	for _, k := range agg.sortedKeys() {
		switch {
		case strings.HasPrefix(k, "fault_"):
			faults[strings.TrimPrefix(k, "fault_")] = agg.C[k]
		case strings.HasPrefix(k, "probe_"):
			probes[strings.TrimPrefix(k, "probe_")] = agg.C[k]
		default:
			other[k] = agg.C[k]
		}
	}
	var ss []any
	for i, s := range samples {
		if i >= 3 {
			break
		}
		if json.Valid([]byte(s)) {
			ss = append(ss, json.RawMessage(s))
		}
	}
	if len(ss) == 0 {
		ss = append(ss, "no non-trivial scenario small enough to print was produced in this run")
	}
	cov := map[string]any{
		"evaluations":           evals,
		"distinct_nontrivial":   distinct,
		"nontrivial":            nontriv,
		"rule":                  p.Rule,
		"samples":               ss,
		"logical_events":        agg.C["events"],
		"runs_per_hour":         int64(float64(evals) / wall * 3600),
		"simulated_time":        "n/a - no component of the library reads a clock; the transport is an in-flight bag, so logical events are reported instead",
		"fault_fired":           faults,
		"probes":                probes,
		"counters":              other,
		"components":            p.Components,
		"determinism_rechecked": detChecked,
		"workers":               workerCount(),
	}
	for k, v := range extraCoverage {
		cov[k] = v
	}
	ev := &Evidence{
		PropertyID: p.ID, Tier: tier, Seed: int64(seed), Level: p.Level, Coverage: cov,
		Assumptions: []string{
			"seeded sampling: a clean batch is evidence over the scenarios explored, not a proof",
			"the reference peer (/verif/sim/ref) is correct; it is self-tested against RFC 2202/4231/3602 vectors, primality of the computed MODP primes and the vectors pinned in the repository's own tests",
			"HMAC collisions (<= 2^-96) never happen",
			"go1.23.5: an injected crypto/rand.Reader failure propagates as an error",
		},
		WallS: wall, Violations: nviol,
	}
	dir := filepath.Join(verifDir(), "evidence")
	if d := os.Getenv("VERIF_EVIDENCE_DIR"); d != "" {
		dir = d
	}
	os.MkdirAll(dir, 0o755)
	writeJSON(filepath.Join(dir, p.ID+".json"), ev)
}

var extraCoverage = map[string]any{}
