package main

import (
	"fmt"

	"github.com/free5gc/ike/eap"
	"github.com/free5gc/ike/message"
	"github.com/free5gc/ike/security"
	"github.com/free5gc/ike/security/dh"
	"github.com/free5gc/ike/security/encr"
	"github.com/free5gc/ike/security/esn"
	"github.com/free5gc/ike/security/integ"
	"github.com/free5gc/ike/security/prf"
)

// ---------------------------------------------------------------------------
// Further operations used as task workload in C18 (the API surface the
// statement names beyond protect/unprotect/derivation/DH): plain codec, EAP
// processing, AT_MAC, PRF', transform <-> algorithm mapping, random helpers,
// read-only shared input. Each returns a deterministic observable digest.
// ---------------------------------------------------------------------------

func init() {
	ops["plain_codec"] = opPlainCodec
	ops["eap_ops"] = opEapOps
	ops["prf_prime"] = opPrfPrime
	ops["mapping"] = opMapping
	ops["rand_u8"] = opRandU8
	ops["decode_shared"] = opDecodeShared
	ops["unprotect_shared"] = opUnprotectShared
	ops["decode_raw"] = opDecodeRaw
}

// opDecodeRaw: plain decoding of a given datagram (own copy).
func opDecodeRaw(w *World, s *Step) (string, string) {
	res := &callResult{}
	var got *MsgSpec
	guard(res, func() {
		m := new(message.IKEMessage)
		if res.Err = m.Decode(rxBuffer(s.Data, 0)); res.Err != nil {
			return
		}
		got = extract(m)
	})
	h := uint64(0)
	if got != nil {
		h = fnv1a(0, got.canon())
	}
	return fmt.Sprintf("%s:%x:%s", res.class(), h, errKey(res.Err)), "decode_raw:" + res.class()
}

// opUnprotectShared: a decoder with its OWN key object unprotects a datagram
// that other tasks unprotect too, reading the same slice (no copy).
func opUnprotectShared(w *World, s *Step) (string, string) {
	if s.Ref < 0 || s.Ref >= len(sharedInputs) || sharedInputs[s.Ref] == nil || s.Suite == nil || s.Keys == nil {
		return "noshared", "noshared"
	}
	in := sharedInputs[s.Ref]
	key, err := newKeyObj(*s.Suite, s.Keys)
	if err != nil {
		return "nokey", "nokey"
	}
	pre := s.Rx != nil && s.Rx.PreHdr
	m, res := unprotect(in, key, "R", pre)
	h := uint64(0)
	if res.class() == "ok" {
		h = fnv1a(0, extract(m).canon())
	}
	return fmt.Sprintf("%s:%x", res.class(), h), "unprotect_shared:" + res.class()
}

func opPlainCodec(w *World, s *Step) (string, string) {
	if s.Msg == nil {
		return "nomsg", "nomsg"
	}
	res := &callResult{}
	var out []byte
	var got *MsgSpec
	guard(res, func() {
		m, err := s.Msg.build()
		if err != nil {
			res.Err = err
			return
		}
		out, res.Err = m.Encode()
		if res.Err != nil {
			return
		}
		m2 := new(message.IKEMessage)
		if res.Err = m2.Decode(rxBuffer(out, 0)); res.Err != nil {
			return
		}
		got = extract(m2)
	})
	h := uint64(0)
	if got != nil {
		h = fnv1a(0, got.canon())
	}
	return fmt.Sprintf("%s:%x:%x", res.class(), fnv1a(0, out), h), "plain_codec:" + res.class()
}

func opEapOps(w *World, s *Step) (string, string) {
	if s.Msg == nil || len(s.Msg.Payloads) == 0 || s.Msg.Payloads[0].EAP == nil {
		return "noeap", "noeap"
	}
	res := &callResult{}
	var b, mac []byte
	var back *EAPSpec
	guard(res, func() {
		p, err := buildEAP(s.Msg.Payloads[0].EAP)
		if err != nil {
			res.Err = err
			return
		}
		if b, res.Err = p.EAP.Marshal(); res.Err != nil {
			return
		}
		q := new(eap.EAP)
		if res.Err = q.Unmarshal(rxBuffer(b, 0)); res.Err != nil {
			return
		}
		back = extractEAP(&message.PayloadEap{EAP: q})
		if p.EapTypeData != nil && p.EapTypeData.Type() == eap.EapTypeAkaPrime {
			mac, res.Err = p.EAP.CalcEapAkaPrimeAtMAC(s.Key)
		}
	})
	h := uint64(0)
	if back != nil {
		ps := PayloadSpec{Kind: "EAP", EAP: back}
		h = fnv1a(0, canonPayloads([]PayloadSpec{ps}))
	}
	return fmt.Sprintf("%s:%x:%x:%x", res.class(), fnv1a(0, b), h, fnv1a(0, mac)), "eap_ops:" + res.class()
}

func opPrfPrime(w *World, s *Step) (string, string) {
	res := &callResult{}
	h := uint64(0)
	guard(res, func() {
		a, b, c, d, e, err := eap.EapAkaPrimePRF(s.Key, s.Data, string(s.Nonce))
		res.Err = err
		for _, x := range [][]byte{a, b, c, d, e} {
			h = fnv1a(h, x)
		}
	})
	return fmt.Sprintf("%s:%x", res.class(), h), "prf_prime:" + res.class()
}

// opMapping walks the algorithm registries: names -> types -> transforms ->
// wire -> transforms -> types, for IKE and Child variants.
func opMapping(w *World, s *Step) (string, string) {
	if s.Suite == nil {
		return "nosuite", "nosuite"
	}
	su := *s.Suite
	res := &callResult{}
	h := uint64(0)
	note := func(v any) { h = fnvStr(h, fmt.Sprint(v)) }
	guard(res, func() {
		o := &security.IKESAKey{DhInfo: libDH(su.DH), EncrInfo: libEncr(su.Encr), IntegInfo: libInteg(su.Integ), PrfInfo: libPrf(su.Prf)}
		p, err := o.ToProposal()
		if err != nil {
			res.Err = err
			return
		}
		sa := &message.SecurityAssociation{Proposals: message.ProposalContainer{p}}
		b, err := sa.Marshal()
		if err != nil {
			res.Err = err
			return
		}
		note(b)
		sa2 := new(message.SecurityAssociation)
		if res.Err = sa2.Unmarshal(rxBuffer(b, 0)); res.Err != nil {
			return
		}
		q := sa2.Proposals[0]
		e := encr.DecodeTransform(q.EncryptionAlgorithm[0])
		i := integ.DecodeTransform(q.IntegrityAlgorithm[0])
		f := prf.DecodeTransform(q.PseudorandomFunction[0])
		d := dh.DecodeTransform(q.DiffieHellmanGroup[0])
		note(e != nil && e.GetKeyLength() == o.EncrInfo.GetKeyLength())
		note(i != nil && i.TransformID() == o.IntegInfo.TransformID())
		note(f != nil && f.TransformID() == o.PrfInfo.TransformID())
		note(d != nil && d.TransformID() == o.DhInfo.TransformID())
		// child variant
		esnT, err := esn.StrToType(Pick(NewRng(s.SpiI), "ESN_ENABLE", "ESN_DISABLE"))
		if err != nil {
			res.Err = err
			return
		}
		c := &security.ChildSAKey{EncrKInfo: libEncrK(su.Encr), IntegKInfo: libIntegK(su.Integ), EsnInfo: esnT}
		cp, err := c.ToProposal()
		if err != nil {
			res.Err = err
			return
		}
		c2, err := security.NewChildSAKeyByProposal(cp)
		if err != nil {
			res.Err = err
			return
		}
		// the caller edits ITS OWN Child SA proposal; the next one it asks for must be pristine
		if s.SpiI&2 == 2 && len(cp.EncryptionAlgorithm) > 0 {
			cp.EncryptionAlgorithm[0].AttributeValue ^= 0x180
			cp.EncryptionAlgorithm[0].TransformID = 3
			if len(cp.IntegrityAlgorithm) > 0 {
				cp.IntegrityAlgorithm[0].TransformID = 5
			}
			cp.ExtendedSequenceNumbers[0].TransformID ^= 1
		}
		cp2, err := c.ToProposal()
		if err != nil {
			res.Err = err
			return
		}
		note(cp2.EncryptionAlgorithm[0].TransformID)
		note(cp2.EncryptionAlgorithm[0].AttributeValue)
		note(cp2.ExtendedSequenceNumbers[0].TransformID)
		if len(cp2.IntegrityAlgorithm) > 0 {
			note(cp2.IntegrityAlgorithm[0].TransformID)
		}
		note(c2.EncrKInfo.GetKeyLength())
		note(c2.IntegKInfo.GetKeyLength())
		note(c2.EsnInfo.GetNeedESN())
		// the caller edits ITS OWN proposal afterwards (e.g. to offer another group); nobody else's may change
		if len(p.DiffieHellmanGroup) > 0 && s.SpiI&1 == 1 {
			p.DiffieHellmanGroup[0].TransformID ^= 12
			p.EncryptionAlgorithm[0].AttributeValue = 192
		}
		p2, err := o.ToProposal()
		if err != nil {
			res.Err = err
			return
		}
		note(p2.DiffieHellmanGroup[0].TransformID)
		note(p2.EncryptionAlgorithm[0].AttributeValue)
		note(message.IkePayloadType(uint8(s.SpiR)).String())
		note(eap.EapAkaPrimeAttrType(uint8(s.SpiR >> 8)).String())
		note(eap.EapType(uint8(s.SpiR >> 16)).String())
	})
	return fmt.Sprintf("%s:%x", res.class(), h), "mapping:" + res.class()
}

func opRandU8(w *World, s *Step) (string, string) {
	res := &callResult{}
	sc := RandScript{Seed: 41}
	if s.Rand != nil {
		sc = *s.Rand
	}
	res.RandSt = simRand.begin(sc)
	var v uint8
	guard(res, func() { v, res.Err = security.GenerateRandomUint8() })
	simRand.end()
	return fmt.Sprintf("%s:%d", res.class(), v), "rand_u8:" + res.class()
}

// sharedInputs are read-only byte slices decoded by several tasks WITHOUT
// copying (the deliberate sharing class of C18). Filled before tasks start.
var sharedInputs [][]byte

func opDecodeShared(w *World, s *Step) (string, string) {
	if s.Ref < 0 || s.Ref >= len(sharedInputs) || sharedInputs[s.Ref] == nil {
		return "noshared", "noshared"
	}
	in := sharedInputs[s.Ref]
	res := &callResult{}
	var got *MsgSpec
	guard(res, func() {
		m := new(message.IKEMessage)
		if res.Err = m.Decode(in); res.Err != nil {
			return
		}
		got = extract(m)
	})
	h := uint64(0)
	if got != nil {
		h = fnv1a(0, got.canon())
	}
	return fmt.Sprintf("%s:%x", res.class(), h), "decode_shared:" + res.class()
}
