package main

import (
	"bytes"
	"fmt"
	"hash"
	"math/big"

	"github.com/free5gc/ike/message"
	"github.com/free5gc/ike/security"
	ikeCrypto "github.com/free5gc/ike/security/IKECrypto"

	"ikesim/ref"
)

// ---------------------------------------------------------------------------
// C07 — IKE SA keys follow RFC 7296 §2.13-2.14 for every negotiable suite;
// initiator and responder end up with identical, mutually usable SAs.
// ---------------------------------------------------------------------------

type c07Kept struct {
	su   Suite
	obj  *security.IKESAKey
	want ref.IKEKeys
	who  string
	step int
}

// c07Keep remembers a derived SA so that it is inspected again after later
// derivations (the keys of an SA must not change when another SA is derived).
func c07Keep(w *World, su Suite, obj *security.IKESAKey, want ref.IKEKeys, who string) {
	kept, _ := w.ext["c07_kept"].([]c07Kept)
	w.ext["c07_kept"] = append(kept, c07Kept{su, obj, want, who, w.step})
}

func c07Final(w *World) {
	kept, _ := w.ext["c07_kept"].([]c07Kept)
	for _, k := range kept {

		probe := NewRng(uint64(k.step) ^ 0x77).Bytes(24)
		if k.step%2 == 0 {
			// callers log their SAs: printing a key object must not change it
			r := &callResult{}
			guard(r, func() { _ = k.obj.String() })
			w.stats.inc("c07_objects_printed_before_reinspection")
		}
		before := len(w.viol)
		c07CheckObjects(w, k.su, k.obj, k.want, k.who+" (re-inspected after later derivations)", probe, uint64(k.step))
		for i := before; i < len(w.viol); i++ {
			w.viol[i].Oracle = "sa_changed_after_later_derivation"
		}
		w.stats.inc("c07_reinspections")
	}
}

func init() {
	finals["C07"] = c07Final
	ops["handshake"] = opHandshake
	ops["kdf"] = opKDF
	props["C07"] = &PropDef{
		ID: "C07", Level: "exploration",
		Gen:   genC07,
		Count: map[string]int{"quick": 80000, "thorough": 2000000},
		Rule: "scenario = 1..4 key-agreement steps; each is either a two-party IKE_SA_INIT key agreement with real library code on both sides " +
			"(initiator: GenerateRandomNumber/GetPublicValue/GetSharedKey/GenerateKeyForIKESA, responder: NewIKESAKey on a proposal made by " +
			"ToProposal or by the Build* helpers; exponents drawn through SimRand scripts; values handed over in memory) or a synthetic derivation " +
			"from a generated shared secret of 1..512 octets; the 3x3x3x2 algorithm combinations are stratified by scenario index. Oracle: SK_* of " +
			"both parties == reference prf+ slices (RFC lengths), every ready-made Integ/Prf/Encr object answers like the reference keyed with its " +
			"slice, and objects of the two parties interoperate pairwise. Non-trivial = a derivation whose seven keys were compared with the reference; " +
			"distinct = distinct abstract traces (mode, suite, nonce/secret length class, proposal style).",
		Components: defaultComponents,
	}
}

func hmacProbe(h hash.Hash, probe []byte) (out []byte, perr string) {
	defer func() {
		if p := recover(); p != nil {
			perr = fmt.Sprint(p)
		}
	}()
	h.Reset()
	h.Write(probe)
	return h.Sum(nil), ""
}

// c07CheckObjects: every ready-made object answers like the reference keyed with its slice.
func c07CheckObjects(w *World, su Suite, o *security.IKESAKey, want ref.IKEKeys, who string, probe []byte, rs uint64, wipe ...bool) bool {
	ok := true
	cmp := func(name string, got, exp []byte) {
		if !bytes.Equal(got, exp) {
			ok = false
			w.violate("key_slice_mismatch", algoOf(su, name), "%s: %s = %x, reference prf+ slice = %x", who, name, got, exp)
		}
	}
	cmp("SK_d", o.SK_d, want.SKd)
	cmp("SK_ai", o.SK_ai, want.SKai)
	cmp("SK_ar", o.SK_ar, want.SKar)
	cmp("SK_ei", o.SK_ei, want.SKei)
	cmp("SK_er", o.SK_er, want.SKer)
	cmp("SK_pi", o.SK_pi, want.SKpi)
	cmp("SK_pr", o.SK_pr, want.SKpr)
	if !ok {
		return false
	}
	if len(wipe) > 0 && wipe[0] {
		// key hygiene: the objects exist, so the caller zeroises its copies of the raw keys before the first use of any object
		for _, b := range [][]byte{o.SK_d, o.SK_ai, o.SK_ar, o.SK_ei, o.SK_er, o.SK_pi, o.SK_pr} {
			for i := range b {
				b[i] = 0
			}
		}
		w.stats.inc("c07_raw_keys_zeroised_before_first_use")
	}
	p, ig := su.refPrf(), su.refInteg()
	hm := func(name string, h hash.Hash, exp []byte) {
		if h == nil {
			ok = false
			w.violate("object_missing", algoOf(su, name), "%s: %s is nil", who, name)
			return
		}
		got, perr := hmacProbe(h, probe)
		if perr != "" || !bytes.Equal(got, exp) {
			ok = false
			w.violate("object_keyed_wrong", algoOf(su, name), "%s: %s on a probe input gives %x, reference HMAC under its key slice gives %x %s", who, name, got, exp, perr)
		}
	}
	hm("Prf_d", o.Prf_d, p.Sum(want.SKd, probe))
	hm("Prf_i", o.Prf_i, p.Sum(want.SKpi, probe))
	hm("Prf_r", o.Prf_r, p.Sum(want.SKpr, probe))
	igFull := func(key []byte) []byte { return ref.Prf{New: ig.New}.Sum(key, probe) }
	hm("Integ_i", o.Integ_i, igFull(want.SKai))
	hm("Integ_r", o.Integ_r, igFull(want.SKar))
	en := func(name string, c ikeCrypto.IKECrypto, key []byte, seed uint64) {
		if c == nil {
			ok = false
			w.violate("object_missing", algoOf(su, name), "%s: %s is nil", who, name)
			return
		}
		co := &cipherObj{keyLen: len(key), key: key, c: c}
		ct, res := encrypt(co, probe, &RandScript{Seed: seed})
		if res.class() != "ok" || len(ct) < 32 || (len(ct)-16)%16 != 0 {
			ok = false
			w.violate("object_keyed_wrong", algoOf(su, name), "%s: %s.Encrypt failed: %s %v", who, name, res.class(), res.Err)
			return
		}
		plain, err := ref.CBCDecrypt(key, ct[:16], ct[16:])
		if err != nil || !bytes.HasPrefix(plain, probe) {
			ok = false
			w.violate("object_keyed_wrong", algoOf(su, name), "%s: ciphertext of %s does not decrypt under reference AES-CBC keyed with its slice", who, name)
			return
		}
		// reference-made ciphertext decrypts under the object
		padn := (16 - (len(probe)+1)%16) % 16
		pt := append(append(clone(probe), make([]byte, padn)...), byte(padn))
		iv := NewRng(seed ^ 0xabc).Bytes(16)
		body, _ := ref.CBCEncrypt(key, iv, pt)
		got, dres := decrypt(co, append(iv, body...))
		if dres.class() != "ok" || !bytes.Equal(got, probe) {
			ok = false
			w.violate("object_keyed_wrong", algoOf(su, name), "%s: %s.Decrypt of reference-made ciphertext failed: %s %v", who, name, dres.class(), dres.Err)
		}
	}
	en("Encr_i", o.Encr_i, want.SKei, rs^1)
	en("Encr_r", o.Encr_r, want.SKer, rs^2)
	return ok
}

// c07Mutual: objects of the two parties interoperate pairwise.
func c07Mutual(w *World, su Suite, a, b *security.IKESAKey, probe []byte, rs uint64) {
	pair := func(name string, ea, eb ikeCrypto.IKECrypto, seed uint64) {
		ca, cb := &cipherObj{c: ea}, &cipherObj{c: eb}
		ct, res := encrypt(ca, probe, &RandScript{Seed: seed})
		if res.class() != "ok" {
			return // already reported by c07CheckObjects
		}
		pt, dres := decrypt(cb, ct)
		if dres.class() != "ok" || !bytes.Equal(pt, probe) {
			w.violate("not_mutually_usable", algoOf(su, name), "what the initiator's %s encrypts the responder's %s does not decrypt: %s %v", name, name, dres.class(), dres.Err)
		}
	}
	pair("Encr_i", a.Encr_i, b.Encr_i, rs^3)
	pair("Encr_r", b.Encr_r, a.Encr_r, rs^4)
	hp := func(name string, ha, hb hash.Hash) {
		if ha == nil || hb == nil {
			return
		}
		x, _ := hmacProbe(ha, probe)
		y, _ := hmacProbe(hb, probe)
		if !bytes.Equal(x, y) {
			w.violate("not_mutually_usable", algoOf(su, name), "%s of the two parties give different outputs on the same input", name)
		}
	}
	hp("Integ_i", a.Integ_i, b.Integ_i)
	hp("Integ_r", a.Integ_r, b.Integ_r)
	hp("Prf_d", a.Prf_d, b.Prf_d)
	hp("Prf_i", a.Prf_i, b.Prf_i)
	hp("Prf_r", a.Prf_r, b.Prf_r)
}

// builtProposal makes the IKE proposal with the Build* helpers (IANA ids from
// the RFCs), optionally followed by further, ignored transforms.
func builtProposal(su Suite, extra bool, spi ...[]byte) *message.Proposal {
	var sa message.SecurityAssociation
	var pspi []byte
	if len(spi) > 0 {
		pspi = spi[0] // an IKE proposal that carries an SPI (IKE SA rekey, RFC 7296 §3.3.1)
	}
	p := sa.Proposals.BuildProposal(1, 1, pspi)
	at := uint16(14)
	bits := uint16(su.Encr * 8)
	p.EncryptionAlgorithm.BuildTransform(1, 12, &at, &bits, nil)
	p.PseudorandomFunction.BuildTransform(2, su.refPrf().ID, nil, nil, nil)
	p.IntegrityAlgorithm.BuildTransform(3, su.refInteg().ID, nil, nil, nil)
	p.DiffieHellmanGroup.BuildTransform(4, uint16(su.DH), nil, nil, nil)
	if extra {
		other := uint16(256)
		if bits == 256 {
			other = 128
		}
		p.EncryptionAlgorithm.BuildTransform(1, 12, &at, &other, nil)
		p.PseudorandomFunction.BuildTransform(2, 2, nil, nil, nil)
		p.IntegrityAlgorithm.BuildTransform(3, 2, nil, nil, nil)
	}
	return p
}

func lenClass(n int) string {
	switch {
	case n <= 1:
		return "1"
	case n < 16:
		return "<16"
	case n <= 64:
		return "<=64"
	case n <= 256:
		return "<=256"
	}
	return "<=512"
}

func opHandshake(w *World, s *Step) (string, string) {
	if s.Suite == nil {
		return "nosuite", "nosuite"
	}
	su := *s.Suite
	nonces := append(clone(s.Nonce), s.Nonce2...)
	style := "toproposal"
	if s.ViaProp {
		style = "builders"
	}
	abs := fmt.Sprintf("hs:%s:%s:n%s", su, style, lenClass(len(nonces)))
	res := &callResult{}
	var oi, or *security.IKESAKey
	var shared []byte
	var fail string
	guard(res, func() {
		oi = &security.IKESAKey{DhInfo: libDH(su.DH), EncrInfo: libEncr(su.Encr), IntegInfo: libInteg(su.Integ), PrfInfo: libPrf(su.Prf)}
		if oi.DhInfo == nil || oi.EncrInfo == nil || oi.IntegInfo == nil || oi.PrfInfo == nil {
			fail = "library does not know the suite"
			return
		}
		sc := RandScript{Seed: 21}
		if s.Rand != nil {
			sc = *s.Rand
		}
		simRand.begin(sc)
		x, err := security.GenerateRandomNumber()
		simRand.end()
		if err != nil {
			fail = "GenerateRandomNumber: " + err.Error()
			return
		}
		pubI := oi.DhInfo.GetPublicValue(x)
		var prop *message.Proposal
		if s.ViaProp {
			if s.N == 2 {
				prop = builtProposal(su, false, NewRng(s.SpiI^s.SpiR).Bytes(8))
			} else {
				prop = builtProposal(su, s.N == 1)
			}
		} else {
			prop, err = oi.ToProposal()
			if err != nil {
				fail = "ToProposal: " + err.Error()
				return
			}
		}
		sc2 := RandScript{Seed: 22}
		if s.Rand2 != nil {
			sc2 = *s.Rand2
		}
		simRand.begin(sc2)
		var pubR []byte
		or, pubR, err = security.NewIKESAKey(prop, pubI, clone(nonces), s.SpiI, s.SpiR)
		simRand.end()
		if err != nil {
			fail = "NewIKESAKey: " + err.Error()
			return
		}
		shared = oi.DhInfo.GetSharedKey(x, new(big.Int).SetBytes(pubR))
		if err := oi.GenerateKeyForIKESA(clone(nonces), shared, s.SpiI, s.SpiR); err != nil {
			fail = "GenerateKeyForIKESA: " + err.Error()
		}
	})
	if w.prop != "C07" {
		if res.class() != "ok" || fail != "" {
			return "fail", abs
		}
		return fmt.Sprintf("ok:%x:%x", fnv1a(0, oi.SK_d), fnv1a(0, or.SK_pr)), abs
	}
	if res.Panic != "" {
		w.violate("handshake_panic", panicKey(res), "key agreement panicked: %s", res.Panic)
		return "panic", abs
	}
	if fail != "" {
		w.violate("handshake_failed", su.String(), "key agreement for %s failed: %s", su, fail)
		return "fail", abs
	}
	want := ref.DeriveIKE(su.refPrf(), su.refInteg(), su.Encr, nonces, shared, s.SpiI, s.SpiR)
	probe := NewRng(s.SpiI ^ 0x9e37).Bytes(1 + int(s.SpiR%90))
	okI := c07CheckObjects(w, su, oi, want, "initiator", probe, s.SpiI)
	okR := c07CheckObjects(w, su, or, want, "responder", probe, s.SpiR)
	if okI && okR {
		c07Mutual(w, su, oi, or, probe, s.SpiI^s.SpiR)
		c07Keep(w, su, oi, want, "initiator")
		c07Keep(w, su, or, want, "responder")
	}
	w.nontriv = true
	w.stats.inc("two_party_handshakes")
	w.stats.inc("probe_suite_" + su.String())
	if s.Rand != nil && s.Rand.Chunk > 0 {
		w.stats.inc("fault_rand_short_reads")
	}
	if s.Rand != nil && s.Rand.PatReads > 0 {
		w.stats.inc("fault_rand_rejection_burst")
	}
	return "ok", abs
}

func opKDF(w *World, s *Step) (string, string) {
	if s.Suite == nil {
		return "nosuite", "nosuite"
	}
	su := *s.Suite
	abs := fmt.Sprintf("kdf:%s:n%s:s%s", su, lenClass(len(s.Nonce)), lenClass(len(s.Secret)))
	a, errA := kdfKeyObj(su, s.Nonce, s.Secret, s.SpiI, s.SpiR)
	b, errB := kdfKeyObj(su, s.Nonce, s.Secret, s.SpiI, s.SpiR)
	if w.prop != "C07" {
		if errA != nil || errB != nil {
			return "fail", abs
		}
		return fmt.Sprintf("ok:%x:%x", fnv1a(0, a.SK_d), fnv1a(0, a.SK_er)), abs
	}
	if errA != nil || errB != nil {
		w.violate("kdf_failed", su.String(), "GenerateKeyForIKESA(%d nonce octets, %d secret octets) for %s failed: %v %v", len(s.Nonce), len(s.Secret), su, errA, errB)
		return "fail", abs
	}
	want := ref.DeriveIKE(su.refPrf(), su.refInteg(), su.Encr, s.Nonce, s.Secret, s.SpiI, s.SpiR)
	probe := NewRng(s.SpiI ^ 0x51).Bytes(1 + int(s.SpiR%90))
	okA := c07CheckObjects(w, su, a, want, "party A", probe, s.SpiI)
	okB := c07CheckObjects(w, su, b, want, "party B", probe, s.SpiR, s.N == 2)
	if okA && okB {
		c07Mutual(w, su, a, b, probe, s.SpiI^s.SpiR)
		c07Keep(w, su, a, want, "party A")
	}
	if s.InPlace && okB {
		c07InPlace(w, s, su, probe)
	}
	if len(s.Nonce2) > 0 && okB {
		// the same key object is keyed again (re-derivation with new nonces): it must then hold exactly the new keys
		res := &callResult{}
		guard(res, func() { res.Err = b.GenerateKeyForIKESA(clone(s.Nonce2), clone(s.Secret), s.SpiR, s.SpiI) })
		if res.class() == "panic" {
			w.violate("rederivation_panic", panicKey(res), "a second GenerateKeyForIKESA on the same key object panicked: %s", res.Panic)
		} else if res.class() == "err" {
			w.stats.inc("c07_rederivation_refused") // refusing to re-key an object is not against the statement
		} else {
			want2 := ref.DeriveIKE(su.refPrf(), su.refInteg(), su.Encr, s.Nonce2, s.Secret, s.SpiR, s.SpiI)
			before := len(w.viol)
			c07CheckObjects(w, su, b, want2, "party B after a second derivation on the same object", probe, s.SpiR^9)
			for i := before; i < len(w.viol); i++ {
				w.viol[i].Oracle = "rederivation_on_same_object_wrong"
			}
			w.stats.inc("c07_rederivations_on_same_object")
		}
	}
	w.nontriv = true
	w.stats.inc("synthetic_derivations")
	w.stats.inc("probe_suite_" + su.String())
	for _, n := range []int{len(s.Nonce), len(s.Secret)} {
		if n%64 == 0 {
			w.stats.inc("probe_length_multiple_of_hash_block_64")
		}
		if n == 1 || n == 512 {
			w.stats.inc("probe_length_at_domain_edge_1_or_512")
		}
	}
	return "ok", abs
}

// c07InPlace: one connection context with fixed nonce / g^ir buffers keys its SA object, later refills the SAME buffers
// with the next exchange's values and keys the SAME object again for the same SPI pair (re-establishment).
func c07InPlace(w *World, s *Step, su Suite, probe []byte) {
	nb, sb := clone(s.Nonce), clone(s.Secret)
	o := &security.IKESAKey{DhInfo: libDH(su.DH), EncrInfo: libEncr(su.Encr), IntegInfo: libInteg(su.Integ), PrfInfo: libPrf(su.Prf)}
	res := &callResult{}
	guard(res, func() { res.Err = o.GenerateKeyForIKESA(nb, sb, s.SpiI, s.SpiR) })
	if res.class() != "ok" {
		return // reported by the first derivations of this step
	}
	r := NewRng(s.SpiI ^ s.SpiR ^ 0x1f)
	copy(nb, r.Bytes(len(nb)))
	copy(sb, r.Bytes(len(sb)))
	want2 := ref.DeriveIKE(su.refPrf(), su.refInteg(), su.Encr, nb, sb, s.SpiI, s.SpiR)
	guard(res, func() { res.Err = o.GenerateKeyForIKESA(nb, sb, s.SpiI, s.SpiR) })
	switch res.class() {
	case "panic":
		w.violate("rederivation_panic", panicKey(res), "a second GenerateKeyForIKESA on the same key object panicked: %s", res.Panic)
	case "err":
		w.stats.inc("c07_rederivation_refused")
	default:
		before := len(w.viol)
		c07CheckObjects(w, su, o, want2, "SA object keyed again from the caller's refilled nonce and secret buffers", probe, s.SpiR^11)
		for i := before; i < len(w.viol); i++ {
			w.viol[i].Oracle = "rederivation_on_same_object_wrong"
		}
		w.stats.inc("c07_rederivations_from_refilled_buffers")
	}
}

func genLen512(r *Rng) int {
	switch r.Intn(8) {
	case 0:
		return 1
	case 1:
		return Pick(r, 15, 16, 17, 20, 32, 63, 64, 65)
	case 2:
		return Pick(r, 127, 128, 129, 256, 511, 512)
	case 3:
		return r.Range(1, 512)
	}
	return r.Range(8, 64)
}

func genC07(r *Rng, idx int, tier string) *Scenario {
	sc := &Scenario{}
	n := r.Range(1, 4)
	for i := 0; i < n; i++ {
		su := suiteByIndex(idx + i*7)
		// handshakes cost modexps: 1 in 8 steps on group 2, 1 in 24 on group 14
		hs := r.Chance(1, 8)
		if su.DH == 14 && !r.Chance(1, 3) {
			hs = false
		}
		if hs {
			st := Step{Op: "handshake", Suite: &su, Nonce: r.Bytes(r.Range(1, 256)), Nonce2: r.Bytes(r.Range(0, 256)),
				SpiI: r.U64(), SpiR: r.U64(), Rand: genDHRand(r), Rand2: genDHRand(r), ViaProp: r.Bool()}
			if st.ViaProp && r.Bool() {
				st.N = Pick(r, 1, 1, 2)
			}
			sc.Steps = append(sc.Steps, st)
		} else {
			st := Step{Op: "kdf", Suite: &su, Nonce: r.Bytes(genLen512(r)), Secret: r.Bytes(genLen512(r)), SpiI: r.U64(), SpiR: r.U64()}
			switch r.Intn(24) { // degenerate but legal values: all-zero / all-one octet strings, zero SPIs
			case 0:
				st.Nonce = make(Hex, len(st.Nonce))
			case 1:
				st.Secret = make(Hex, len(st.Secret))
			case 2:
				st.Secret = bytes.Repeat([]byte{0xff}, len(st.Secret))
			case 3:
				st.SpiI, st.SpiR = 0, 0
			}
			if r.Chance(1, 4) {
				st.Nonce2 = r.Bytes(genLen512(r))
			}
			st.InPlace = r.Chance(1, 6)
			if r.Chance(1, 6) {
				st.N = 2 // party B zeroises its raw keys before first use of its objects
			}
			sc.Steps = append(sc.Steps, st)
		}
	}
	return sc
}

// algoOf names the algorithm that governs one key slice / object (finding key).
func algoOf(su Suite, name string) string {
	switch name {
	case "SK_d", "SK_pi", "SK_pr", "Prf_d", "Prf_i", "Prf_r":
		return name + "/prf_" + su.Prf
	case "SK_ai", "SK_ar", "Integ_i", "Integ_r":
		return name + "/" + su.Integ
	}
	return fmt.Sprintf("%s/aes%d", name, su.Encr*8)
}
