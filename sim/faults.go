package main

import (
	"encoding/binary"

	"github.com/free5gc/ike/message"
)

// ---------------------------------------------------------------------------
// Transport corruption faults. Each returns the datagram the receiver sees.
// A fault whose parameters do not fit the datagram is a no-op returning nil
// (counted as "fault_inapplicable"), so that shrinking never crashes.
// ---------------------------------------------------------------------------

func repairLengths(d []byte) {
	if len(d) >= 28 {
		binary.BigEndian.PutUint32(d[24:28], uint32(len(d)))
	}
	if len(d) >= 32 {
		binary.BigEndian.PutUint16(d[30:32], uint16(len(d)-28))
	}
}

func (w *World) applyFault(orig []byte, f *Fault) []byte {
	d := clone(orig)
	if f == nil {
		return d
	}
	switch f.Kind {
	case "bitflip":
		if f.Byte < 0 || f.Byte >= len(d) || f.Bit < 0 || f.Bit > 7 {
			return nil
		}
		d[f.Byte] ^= 1 << uint(f.Bit)
	case "truncate":
		if f.Len < 0 || f.Len >= len(d) {
			return nil
		}
		d = d[:f.Len]
	case "extend":
		if len(f.Data) == 0 {
			return nil
		}
		d = append(d, f.Data...)
	case "prepend": // octets in FRONT of the genuine message (encapsulation markers, a stray header)
		if len(f.Data) == 0 {
			return nil
		}
		d = append(clone(f.Data), d...)
	case "extend_fix": // extension with the header length repaired
		if len(f.Data) == 0 {
			return nil
		}
		d = append(d, f.Data...)
		if len(d) >= 28 {
			binary.BigEndian.PutUint32(d[24:28], uint32(len(d)))
		}
	case "edit":
		if f.Off < 0 || f.Off+len(f.Data) > len(d) || len(f.Data) == 0 {
			return nil
		}
		copy(d[f.Off:], f.Data)
	case "edit2": // octet Off ^= Bit, octet Val ^= Len
		if f.Off < 0 || f.Val < 0 || f.Off >= len(d) || f.Val >= len(d) || f.Off == f.Val {
			return nil
		}
		d[f.Off] ^= byte(f.Bit)
		d[f.Val] ^= byte(f.Len)
	case "ckpreserve":
		// corruption that a weak checksum does not notice (what gets past the UDP checksum or a link CRC in
		// real networks, and past any short-cut comparison by CRC / sum / xor inside an implementation)
		if !checksumPreservingEdit(d, f.Val, f.Off, f.Len, f.Bit) {
			return nil
		}
	case "splice": // d[:off] of this one, other[off:] of the second
		o := w.dgram(f.With)
		if o == nil || f.Off < 0 || f.Off > len(d) || f.Off > len(o.Bytes) {
			return nil
		}
		d = append(d[:f.Off:f.Off], o.Bytes[f.Off:]...)
	case "splice_fix": // same, lengths repaired
		o := w.dgram(f.With)
		if o == nil || f.Off < 0 || f.Off > len(d) || f.Off > len(o.Bytes) {
			return nil
		}
		d = append(d[:f.Off:f.Off], o.Bytes[f.Off:]...)
		repairLengths(d)
	case "skshrink": // SK payload body cut to Len octets, both lengths repaired
		if len(d) < 32 || f.Len < 0 || 32+f.Len >= len(d) {
			return nil
		}
		d = d[:32+f.Len]
		repairLengths(d)
	case "skshrink_tail": // keep the last Len octets of the SK body (so a genuine-looking tail remains)
		if len(d) < 32 || f.Len < 0 || 32+f.Len >= len(d) {
			return nil
		}
		tail := clone(d[len(d)-f.Len:])
		d = append(d[:32:32], tail...)
		repairLengths(d)
	case "skshort_unknown":
		// the SK payload is NOT last: its body is cut to Len octets, its next-payload field names the unknown
		// type Val, and a well-formed non-critical payload of that type follows; every length is consistent
		if len(d) < 32 || f.Len < 0 || 32+f.Len > len(d) || f.Val <= 48 || f.Val > 255 {
			return nil
		}
		d = d[:32+f.Len]
		d[28] = byte(f.Val)
		binary.BigEndian.PutUint16(d[30:32], uint16(4+f.Len))
		tl := 4 + len(f.Data)
		d = append(d, 0, 0, byte(tl>>8), byte(tl))
		d = append(d, f.Data...)
		binary.BigEndian.PutUint32(d[24:28], uint32(len(d)))
	case "sklen": // the SK payload's own length field set to Val, nothing repaired
		if len(d) < 32 || f.Val < 0 || f.Val > 65535 || int(binary.BigEndian.Uint16(d[30:32])) == f.Val {
			return nil
		}
		binary.BigEndian.PutUint16(d[30:32], uint16(f.Val))
	case "hdrlen": // the header's length field set to Val, nothing repaired
		if len(d) < 28 || f.Val < 0 {
			return nil
		}
		binary.BigEndian.PutUint32(d[24:28], uint32(f.Val))
	case "firsttype":
		if len(d) < 28 || f.Val < 0 || f.Val > 255 {
			return nil
		}
		d[16] = byte(f.Val)
	case "skflags": // critical / reserved bits of the SK generic header
		if len(d) < 32 || f.Val <= 0 || f.Val > 255 {
			return nil
		}
		d[29] |= byte(f.Val)
	case "sknext": // inner first-payload type in the SK generic header
		if len(d) < 32 || f.Val < 0 || f.Val > 255 || d[28] == byte(f.Val) {
			return nil
		}
		d[28] = byte(f.Val)
	case "iv":
		if len(d) < 48 || len(f.Data) != 16 {
			return nil
		}
		copy(d[32:48], f.Data)
	case "icvswap": // ICV of another genuine message
		o := w.dgram(f.With)
		if o == nil || f.Len <= 0 || f.Len > len(d) || f.Len > len(o.Bytes) {
			return nil
		}
		copy(d[len(d)-f.Len:], o.Bytes[len(o.Bytes)-f.Len:])
	case "blockswap": // swap ciphertext blocks Off and Val (block indices after the IV)
		a, b := 48+16*f.Off, 48+16*f.Val
		if f.Off < 0 || f.Val < 0 || a == b || a+16 > len(d) || b+16 > len(d) {
			return nil
		}
		var t [16]byte
		copy(t[:], d[a:a+16])
		copy(d[a:a+16], d[b:b+16])
		copy(d[b:b+16], t[:])
	case "extend_payload":
		if f.Pl == nil {
			return nil
		}
		var tail []byte
		r := &callResult{}
		guard(r, func() {
			pl, err := buildPayload(f.Pl)
			if err != nil {
				return
			}
			c := message.IKEPayloadContainer{pl}
			tail, _ = c.Encode()
		})
		if len(tail) < 4 {
			return nil
		}
		for i := 0; i+1 < len(f.Edits); i += 2 {
			if f.Edits[i] >= 0 {
				tail[f.Edits[i]%len(tail)] = byte(f.Edits[i+1])
			}
		}
		if f.Len > 0 && f.Len < len(tail) {
			tail = tail[:f.Len]
		}
		if f.Val != 0 && len(tail) >= 4 {
			binary.BigEndian.PutUint16(tail[2:4], uint16(len(tail)))
		}
		d = append(d, tail...)
	case "garbage":
		if len(f.Data) == 0 {
			return nil
		}
		d = clone(f.Data)
	default:
		return nil
	}
	return d
}

// checksumPreservingEdit alters d (never to the same octets) such that one family of weak checksums over the
// whole datagram is unchanged. variant 0/1: XOR with the CRC-32 generator (IEEE / Castagnoli) at stream bit
// position a, reflected bit order as in hash/crc32; 2/3: the same, most significant bit first; 4: swap the
// 16-bit words at octet offsets a and b (ones'-complement sum, Fletcher-free sums); 5: octet a += k, octet
// b -= k without carry (additive sums); 6: XOR octets a and b with k (xor checksums; also octet sums when
// the flipped bits differ in the two octets).
func checksumPreservingEdit(d []byte, variant, a, b, k int) bool {
	switch variant {
	case 0, 1, 2, 3:
		poly := uint32(0x04C11DB7)
		if variant&1 == 1 {
			poly = 0x1EDC6F41
		}
		if a < 0 || a+33 > len(d)*8 {
			return false
		}
		flip := func(p int) {
			if variant < 2 {
				d[p/8] ^= 1 << uint(p%8)
			} else {
				d[p/8] ^= 0x80 >> uint(p%8)
			}
		}
		flip(a)
		for i := 0; i < 32; i++ {
			if poly&(1<<uint(31-i)) != 0 {
				flip(a + 1 + i)
			}
		}
		return true
	case 4:
		if a < 0 || b < 0 || a+2 > len(d) || b+2 > len(d) || a%2 != b%2 || a == b || (d[a] == d[b] && d[a+1] == d[b+1]) {
			return false
		}
		d[a], d[b] = d[b], d[a]
		d[a+1], d[b+1] = d[b+1], d[a+1]
		return true
	case 5:
		k &= 0xff
		if a < 0 || b < 0 || a >= len(d) || b >= len(d) || a == b || k == 0 || int(d[a])+k > 255 || int(d[b])-k < 0 {
			return false
		}
		d[a] += byte(k)
		d[b] -= byte(k)
		return true
	case 6:
		k &= 0xff
		if a < 0 || b < 0 || a >= len(d) || b >= len(d) || a == b || k == 0 {
			return false
		}
		d[a] ^= byte(k)
		d[b] ^= byte(k)
		return true
	}
	return false
}

// genChecksumPreserving draws a ckpreserve fault for a datagram of about n octets.
func genChecksumPreserving(r *Rng, n int) *Fault {
	if n < 40 {
		n = 40
	}
	v := r.Intn(7)
	f := &Fault{Kind: "ckpreserve", Val: v}
	switch {
	case v < 4:
		f.Off = r.Intn(n*8 - 33)
	case v == 4:
		f.Off = r.Intn(n - 2)
		f.Len = f.Off%2 + 2*r.Intn((n-2)/2)
	default:
		f.Off, f.Len, f.Bit = r.Intn(n), r.Intn(n), 1<<uint(r.Intn(8))
	}
	return f
}
