package main

import (
	"crypto/rand"
	"errors"
	"io"
	"runtime"
	"sync/atomic"
)

// ---------------------------------------------------------------------------
// SimRand: the random source as a simulated device. Installed once per worker
// process as crypto/rand.Reader (the seam the library already has). For the
// duration of one step it serves that step's RandScript and records every read.
// ---------------------------------------------------------------------------

type RandScript struct {
	Seed uint64 `json:"seed"`
	// Prefix bytes are served first (scripts an exact exponent / IV / padding).
	Prefix Hex `json:"prefix,omitempty"`
	// Pattern: the first PatReads Read calls after the prefix return octets of
	// value PatByte ("const"), then the seeded stream resumes. Bounded bursts
	// only: an endless all-0xFF source would legitimately spin rand.Int.
	PatReads int   `json:"pat_reads,omitempty"`
	PatByte  uint8 `json:"pat_byte,omitempty"`
	// Chunk > 0: serve at most Chunk octets per Read call (legal short reads).
	Chunk int `json:"chunk,omitempty"`
	// FailAt >= 1: the FailAt-th Read call of the step fails. 0 = never.
	// FlipAt >= 1: the FlipAt-th octet served in this step (counting from 1) is complemented.
	FlipAt   int    `json:"flip_at,omitempty"`
	FailAt   int    `json:"fail_at,omitempty"`
	FailMode string `json:"fail_mode,omitempty"` // "err" (0,err) | "eof" (0,EOF) | "partial" (n>0,err)
}

var errInjectedRand = errors.New("simrand: injected random source failure")

type randRead struct {
	Asked  int
	Served int
	Failed bool
}

// randState is one independent stream (one step, or one task in C18).
type randState struct {
	script  RandScript
	rng     *Rng
	prefOff int
	calls   int
	reads   []randRead
	served  []byte // all octets served so far in this step (bounded use)
	keep    bool   // record served octets
	fired   bool
	total   int
	yieldOn bool
}

func newRandState(s RandScript) *randState {
	return &randState{script: s, rng: NewRng(s.Seed ^ 0x5deece66d)}
}

func (st *randState) read(p []byte) (int, error) {
	st.calls++
	n := len(p)
	if st.script.Chunk > 0 && n > st.script.Chunk {
		n = st.script.Chunk
	}
	if st.script.FailAt > 0 && st.calls == st.script.FailAt {
		st.fired = true
		switch st.script.FailMode {
		case "eof":
			st.reads = append(st.reads, randRead{len(p), 0, true})
			return 0, io.EOF
		case "partial":
			k := n / 2
			if k == 0 && n > 0 {
				k = 1
			}
			if k >= len(p) && k > 0 {
				k = len(p) - 1
			}
			st.fill(p[:k])
			st.reads = append(st.reads, randRead{len(p), k, true})
			return k, errInjectedRand
		default:
			st.reads = append(st.reads, randRead{len(p), 0, true})
			return 0, errInjectedRand
		}
	}
	st.fill(p[:n])
	st.reads = append(st.reads, randRead{len(p), n, false})
	return n, nil
}

func (st *randState) fill(p []byte) {
	i := 0
	for i < len(p) && st.prefOff < len(st.script.Prefix) {
		p[i] = st.script.Prefix[st.prefOff]
		st.prefOff++
		i++
	}
	if i < len(p) {
		if st.script.PatReads > 0 && st.prefOff >= len(st.script.Prefix) {
			st.script.PatReads--
			for ; i < len(p); i++ {
				p[i] = st.script.PatByte
			}
		} else {
			st.rng.Fill(p[i:])
		}
	}
	if f := st.script.FlipAt; f > st.total && f <= st.total+len(p) {
		p[f-st.total-1] ^= 0xff
	}
	st.total += len(p)
	if st.keep {
		st.served = append(st.served, p...)
	}
}

// SimRand is the process-global device.
type SimRand struct {
	cur      *randState                // sequential / serialized mode
	byGoid   map[int64]*taskRandHolder // parallel mode (the map is read-only during rounds)
	parallel atomic.Bool
	idle     *randState // serves reads made outside any step (should not happen)
	idleUsed int
}

var simRand = &SimRand{idle: newRandState(RandScript{Seed: 0x1d1e})}

func installSimRand() { rand.Reader = simRand }

func (s *SimRand) Read(p []byte) (int, error) {
	if s.parallel.Load() {
		h := s.byGoid[goid()]
		if h == nil || h.cur == nil {
			panic(harnessError{"random source read by an unknown goroutine in parallel mode"})
		}
		return h.cur.read(p)
	}
	st := s.cur
	if st == nil {
		s.idleUsed++
		return s.idle.read(p)
	}
	if st.yieldOn {
		schedYield("rand")
		st = s.cur
	}
	return st.read(p)
}

// begin installs a script for one step and returns its state.
func (s *SimRand) begin(sc RandScript) *randState {
	st := newRandState(sc)
	if s.parallel.Load() {
		if h := s.byGoid[goid()]; h != nil {
			h.cur = st
			return st
		}
	}
	st.yieldOn = schedHook != nil
	s.cur = st
	return st
}

func (s *SimRand) end() {
	if s.parallel.Load() {
		if h := s.byGoid[goid()]; h != nil {
			h.cur = nil
			return
		}
	}
	s.cur = nil
}

func goid() int64 {
	var buf [64]byte
	n := runtime.Stack(buf[:], false)
	// "goroutine 123 ["
	var id int64
	for i := len("goroutine "); i < n; i++ {
		c := buf[i]
		if c < '0' || c > '9' {
			break
		}
		id = id*10 + int64(c-'0')
	}
	return id
}
