//go:build simyield

package main

import "github.com/free5gc/ike/simyield"

// Built only against the AST-instrumented scratch copy of the repository.
func init() {
	simyield.Hook = func(site int) {
		if schedHook != nil && !yieldMute {
			schedHook(site)
		}
	}
	simyield.LockHook = func(delta int) {
		if schedLockHook != nil {
			schedLockHook(delta)
		}
	}
	yieldBuild = true
}
