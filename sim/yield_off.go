package main

// yieldBuild is true in the binary built against the AST-instrumented copy.
var yieldBuild bool
