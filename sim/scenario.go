package main

import (
	"encoding/json"
	"fmt"
	"sort"
	"sync/atomic"

	"github.com/free5gc/ike/security"
)

// ---------------------------------------------------------------------------
// Scenario = explicit list of steps with resolved arguments. The seed only
// generates it; replay is a pure function of the list and the code.
// ---------------------------------------------------------------------------

type Fault struct {
	Kind string `json:"kind"` // bitflip truncate extend edit splice skshrink firsttype ...
	Byte int    `json:"byte,omitempty"`
	Bit  int    `json:"bit,omitempty"`
	Len  int    `json:"len,omitempty"`
	Off  int    `json:"off,omitempty"`
	Val  int    `json:"val,omitempty"`
	Data Hex    `json:"data,omitempty"`
	With int    `json:"with,omitempty"` // second datagram (splice)
	// extend_payload: tail = encoding of Pl, then Edits (offset,value pairs), cut to Len, length field repaired if Val != 0
	Pl    *PayloadSpec `json:"pl,omitempty"`
	Edits []int        `json:"edits,omitempty"`
}

type Step struct {
	Op string `json:"op"`

	// common
	SA   int         `json:"sa,omitempty"`
	Rand *RandScript `json:"rand,omitempty"`

	// sa
	Suite  *Suite      `json:"suite,omitempty"`
	Mode   string      `json:"mode,omitempty"` // direct | kdf | dh
	Keys   *RawKeys    `json:"keys,omitempty"`
	Secret Hex         `json:"secret,omitempty"`
	Nonce  Hex         `json:"nonce,omitempty"`
	Nonce2 Hex         `json:"nonce2,omitempty"`
	SpiI   uint64      `json:"spii,omitempty"`
	SpiR   uint64      `json:"spir,omitempty"`
	Rand2  *RandScript `json:"rand2,omitempty"`

	// send
	From   string   `json:"from,omitempty"` // I | R
	Msg    *MsgSpec `json:"msg,omitempty"`
	NilKey bool     `json:"nilkey,omitempty"`
	Obj    string   `json:"obj,omitempty"` // long | twin | sender | ref
	Repeat int      `json:"repeat,omitempty"`
	// Retry: if the protect call fails because an injected random-source failure fired, the
	// caller retries ONCE on the SAME message object with a healthy source (as a sender would).
	Retry bool `json:"retry,omitempty"`

	// deliver
	Dgram int     `json:"dgram,omitempty"`
	To    string  `json:"to,omitempty"`
	ToSA  *int    `json:"tosa,omitempty"`
	Fault *Fault  `json:"fault,omitempty"`
	Rx    *RxOpts `json:"rx,omitempty"`

	// sweeps
	Sweep string `json:"sweep,omitempty"`
	From_ int    `json:"sweep_from,omitempty"`
	To_   int    `json:"sweep_to,omitempty"` // exclusive; 0 = all

	// reference-built messages (C06 direction B)
	IV  Hex `json:"iv,omitempty"`
	Pad Hex `json:"pad,omitempty"`

	// child
	ChildEncr  int    `json:"cencr,omitempty"`
	ChildInteg string `json:"cinteg,omitempty"` // "" none md5 sha1 sha256
	ViaProp    bool   `json:"viaprop,omitempty"`
	Side       string `json:"side,omitempty"` // which endpoint derives: I | R
	// InPlace: the caller keeps ONE nonce buffer for the life of the IKE SA, refills it in place for
	// every exchange and hands (a prefix of) it to the derivation.
	InPlace bool `json:"inplace,omitempty"`

	// dh / numbers
	Group int `json:"group,omitempty"`
	X     Hex `json:"x,omitempty"`
	Y     Hex `json:"y,omitempty"`

	// cipher (C10)
	Cipher int    `json:"cipher,omitempty"`
	Key    Hex    `json:"key,omitempty"`
	Data   Hex    `json:"data,omitempty"`
	Src    string `json:"src,omitempty"`
	Ref    int    `json:"refidx,omitempty"`
	PadLen int    `json:"padlen,omitempty"`
	N      int    `json:"n,omitempty"`

	// C18
	Tasks    []Task      `json:"tasks,omitempty"`
	Schedule []SchedSlot `json:"schedule,omitempty"`
	Rounds   [][]int     `json:"rounds,omitempty"`
	Procs    int         `json:"procs,omitempty"`
}

type Task struct {
	Steps []Step `json:"steps"`
}

type SchedSlot struct {
	Task    int `json:"t"`
	Quantum int `json:"q"`
}

type Scenario struct {
	Prop  string `json:"property"`
	Seed  uint64 `json:"seed"`
	Index int    `json:"index"`
	Steps []Step `json:"steps"`
}

type Violation struct {
	Prop   string `json:"property"`
	Oracle string `json:"oracle"`
	Key    string `json:"key"` // finding key: call site / input class
	Step   int    `json:"step"`
	Detail string `json:"detail"`
	// Expand replaces the sweep step that found it by an explicit single step.
	Expand *Step `json:"expand,omitempty"`
}

func (v Violation) id() string { return v.Oracle + "|" + v.Key }

// ---------------------------------------------------------------------------
// World: state of one simulated run.
// ---------------------------------------------------------------------------

type SA struct {
	Suite Suite
	Keys  *RawKeys
	Obj   [2]*security.IKESAKey // long-lived object of endpoint I (0) and R (1)
	Spy   [2]*security.IKESAKey // spied views of the same objects
	Log   atomic.Pointer[spyLog]
	OK    bool
	twins int
}

type Dgram struct {
	SA      int
	From    string
	Bytes   []byte
	Spec    *MsgSpec
	NilKey  bool
	Genuine bool
	// Authentic: built by a key holder (valid checksum) but NOT a well-formed protected message
	Authentic bool
}

type Stats struct {
	C map[string]int64
}

func newStats() *Stats { return &Stats{C: map[string]int64{}} }

func (s *Stats) inc(k string) { s.C[k]++ }

func (s *Stats) add(k string, n int64) { s.C[k] += n }

func (s *Stats) merge(o *Stats) {
	for k, v := range o.C {
		s.C[k] += v
	}
}

func (s *Stats) sortedKeys() []string {
	ks := make([]string, 0, len(s.C))
	for k := range s.C {
		ks = append(ks, k)
	}
	sort.Strings(ks)
	return ks
}

type World struct {
	prop          string
	sas           map[int]*SA
	dgrams        map[int]*Dgram
	ciphers       map[int]*cipherObj
	inbox         []*held
	arena         []byte
	viol          []Violation
	trace         []string // observable outcome per step
	abs           uint64   // abstract trace hash
	nontriv       bool
	stats         *Stats
	step          int
	pendingExpand *Step
	ext           map[string]any // property-specific state
}

func newWorld(prop string) *World {
	return &World{prop: prop, stats: newStats(), ext: map[string]any{},
		sas: map[int]*SA{}, dgrams: map[int]*Dgram{}, ciphers: map[int]*cipherObj{}}
}

func (w *World) violate(oracle, key, format string, a ...any) {
	v := Violation{Prop: w.prop, Oracle: oracle, Key: key, Step: w.step, Detail: fmt.Sprintf(format, a...)}
	if len(v.Detail) > 2000 {
		v.Detail = v.Detail[:2000] + "…"
	}
	if w.pendingExpand != nil {
		st := *w.pendingExpand
		v.Expand = &st
	}
	w.viol = append(w.viol, v)
}

// absorb adds one element to the abstract trace.
func (w *World) absorb(s string) {
	w.abs = fnvStr(w.abs, s)
	w.abs = fnv1a(w.abs, []byte{0})
}

func (w *World) sa(i int) *SA {
	s := w.sas[i]
	if s == nil || !s.OK {
		return nil
	}
	return s
}

func (w *World) dgram(i int) *Dgram {
	d := w.dgrams[i]
	if d == nil || d.Bytes == nil {
		return nil
	}
	return d
}

func side(role string) int {
	if role == "I" {
		return 0
	}
	return 1
}

// Result of one scenario execution.
type Result struct {
	Viol    []Violation
	Abs     uint64
	Nontriv bool
	Stats   *Stats
	Trace   []string
	Events  int
}

type opFunc func(w *World, s *Step) (obs string, abs string)

var ops = map[string]opFunc{}

func (w *World) exec(s *Step) {
	f, ok := ops[s.Op]
	if !ok {
		panic(harnessError{fmt.Sprintf("unknown op %q", s.Op)})
	}
	obs, abs := f(w, s)
	w.trace = append(w.trace, s.Op+":"+obs)
	w.absorb(s.Op + ":" + abs)
	w.stats.inc("events")
}

type harnessError struct{ msg string }

func (h harnessError) Error() string { return h.msg }

func runScenario(sc *Scenario) *Result {
	w := newWorld(sc.Prop)
	for i := range sc.Steps {
		w.step = i
		w.exec(&sc.Steps[i])
	}
	if fin, ok := finals[sc.Prop]; ok {
		w.step = len(sc.Steps)
		fin(w)
	}
	return &Result{Viol: w.viol, Abs: w.abs, Nontriv: w.nontriv, Stats: w.stats, Trace: w.trace, Events: int(w.stats.C["events"])}
}

var finals = map[string]func(w *World){}

func (sc *Scenario) json() []byte {
	b, err := json.MarshalIndent(sc, "", " ")
	if err != nil {
		panic(err)
	}
	return b
}

func (sc *Scenario) clone() *Scenario {
	var c Scenario
	if err := json.Unmarshal(sc.json(), &c); err != nil {
		panic(err)
	}
	return &c
}
