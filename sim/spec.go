package main

import (
	"encoding/binary"
	"fmt"

	"github.com/free5gc/ike/eap"
	"github.com/free5gc/ike/message"
)

// ---------------------------------------------------------------------------
// MsgSpec: a plain, JSON-serialisable description of a message in the
// "encodable domain" of C01/C03. build() constructs the library value,
// extract() reads one back through exported fields only.
// ---------------------------------------------------------------------------

type MsgSpec struct {
	ISPI     uint64        `json:"ispi"`
	RSPI     uint64        `json:"rspi"`
	Major    uint8         `json:"maj"`
	Minor    uint8         `json:"min"`
	Exch     uint8         `json:"exch"`
	Flags    uint8         `json:"flags"`
	MsgID    uint32        `json:"mid"`
	Payloads []PayloadSpec `json:"payloads,omitempty"`
	// Bookkeeping noise: the value the header's NextPayload field (and, if Junk, the
	// PayloadBytes field) holds when the message object reaches the library, as it does
	// for a reused or previously decoded message object. Not part of the message's
	// meaning: ignored by canon()/specEqual (the properties exclude header bookkeeping).
	HdrNext uint8 `json:"hdr_next,omitempty"`
	Junk    bool  `json:"hdr_junk,omitempty"`
}

type PayloadSpec struct {
	Kind string `json:"k"` // SA KE IDi IDr CERT CERTREQ AUTH Nonce N D V TSi TSr CP EAP (SK only when extracted)
	// generic scalar slots (meaning depends on Kind)
	A    uint8  `json:"a,omitempty"`   // IDType / cert encoding / auth method / protocol id / cfg type
	B    uint16 `json:"b,omitempty"`   // DH group / notify type
	Data Hex    `json:"d,omitempty"`   // main octet string
	SPI  Hex    `json:"spi,omitempty"` // notify SPI
	// structured
	Proposals []ProposalSpec `json:"props,omitempty"`
	TS        []TSSpec       `json:"ts,omitempty"`
	Attrs     []CPAttrSpec   `json:"attrs,omitempty"`
	SPISize   uint8          `json:"spisz,omitempty"`
	NumSPI    uint16         `json:"nspi,omitempty"`
	SPIs      []uint32       `json:"spis,omitempty"`
	EAP       *EAPSpec       `json:"eap,omitempty"`
}

type ProposalSpec struct {
	Num   uint8           `json:"num"`
	Proto uint8           `json:"proto"`
	SPI   Hex             `json:"spi,omitempty"`
	Encr  []TransformSpec `json:"encr,omitempty"`
	Prf   []TransformSpec `json:"prf,omitempty"`
	Integ []TransformSpec `json:"integ,omitempty"`
	DH    []TransformSpec `json:"dh,omitempty"`
	ESN   []TransformSpec `json:"esn,omitempty"`
	// ShareEncr: build-time aliasing only. This proposal's Encr list starts with the previous
	// proposal's Encr list; its container is built by APPENDING to the previous proposal's
	// container (shared backing array), as a caller building proposals incrementally does.
	ShareEncr bool `json:"share_encr,omitempty"`
}

type TransformSpec struct {
	Type    uint8  `json:"t"`
	ID      uint16 `json:"id"`
	HasAttr bool   `json:"has,omitempty"`
	TV      bool   `json:"tv,omitempty"` // format bit: true = TV
	AType   uint16 `json:"at,omitempty"`
	AValue  uint16 `json:"av,omitempty"`
	AVar    Hex    `json:"avar,omitempty"`
}

type TSSpec struct {
	Type  uint8  `json:"t"`
	Proto uint8  `json:"p"`
	SPort uint16 `json:"sp"`
	EPort uint16 `json:"ep"`
	SAddr Hex    `json:"sa"`
	EAddr Hex    `json:"ea"`
}

type CPAttrSpec struct {
	Type  uint16 `json:"t"`
	Value Hex    `json:"v,omitempty"`
}

type EAPSpec struct {
	Code uint8  `json:"code"`
	ID   uint8  `json:"id"`
	Kind string `json:"k"` // "" (no data) identity notification nak expanded aka
	Data Hex    `json:"d,omitempty"`
	// expanded
	VendorID   uint32 `json:"vid,omitempty"`
	VendorType uint32 `json:"vt,omitempty"`
	// aka'
	SubType uint8         `json:"sub,omitempty"`
	Attrs   []AkaAttrSpec `json:"attrs,omitempty"` // ascending type order
}

type AkaAttrSpec struct {
	Type  uint8 `json:"t"`
	Value Hex   `json:"v,omitempty"`
}

// ---------------------------------------------------------------------------
// build
// ---------------------------------------------------------------------------

func buildTransforms(ts []TransformSpec) message.TransformContainer {
	var c message.TransformContainer
	for _, t := range ts {
		tr := &message.Transform{TransformType: t.Type, TransformID: t.ID}
		if t.HasAttr {
			tr.AttributePresent = true
			tr.AttributeType = t.AType
			if t.TV {
				tr.AttributeFormat = message.AttributeFormatUseTV
				tr.AttributeValue = t.AValue
			} else {
				tr.AttributeFormat = message.AttributeFormatUseTLV
				tr.VariableLengthAttributeValue = clone(t.AVar)
			}
		}
		c = append(c, tr)
	}
	return c
}

func buildTS(ts []TSSpec) message.IndividualTrafficSelectorContainer {
	var c message.IndividualTrafficSelectorContainer
	for _, t := range ts {
		c.BuildIndividualTrafficSelector(t.Type, t.Proto, t.SPort, t.EPort, t.SAddr, t.EAddr)
	}
	return c
}

func buildEAP(e *EAPSpec) (*message.PayloadEap, error) {
	p := &message.PayloadEap{EAP: &eap.EAP{Code: eap.EapCode(e.Code), Identifier: e.ID}}
	switch e.Kind {
	case "":
	case "identity":
		p.EapTypeData = &eap.EapIdentity{IdentityData: clone(e.Data)}
	case "notification":
		p.EapTypeData = &eap.EapNotification{NotificationData: clone(e.Data)}
	case "nak":
		p.EapTypeData = &eap.EapNak{NakData: clone(e.Data)}
	case "expanded":
		p.EapTypeData = message.BuildEapExpanded(e.VendorID, e.VendorType, e.Data)
	case "aka":
		a := eap.NewEapAkaPrime(eap.EapAkaSubtype(e.SubType))
		for _, at := range e.Attrs {
			v := at.Value
			if v == nil {
				v = []byte{}
			}
			if err := a.SetAttr(eap.EapAkaPrimeAttrType(at.Type), v); err != nil {
				return nil, fmt.Errorf("SetAttr(%d,%d octets): %v", at.Type, len(v), err)
			}
		}
		p.EapTypeData = a
	default:
		return nil, fmt.Errorf("unknown eap kind %q", e.Kind)
	}
	return p, nil
}

func buildPayload(ps *PayloadSpec) (message.IKEPayload, error) {
	switch ps.Kind {
	case "SA":
		sa := new(message.SecurityAssociation)
		var prevEncr message.TransformContainer
		for i, pr := range ps.Proposals {
			p := sa.Proposals.BuildProposal(pr.Num, pr.Proto, pr.SPI)
			if pr.ShareEncr && i > 0 && len(prevEncr) > 0 && len(pr.Encr) > len(prevEncr) &&
				string(canonTransforms(pr.Encr[:len(prevEncr)])) == string(canonTransforms(ps.Proposals[i-1].Encr)) {
				p.EncryptionAlgorithm = append(prevEncr, buildTransforms(pr.Encr[len(prevEncr):])...)
			} else {
				p.EncryptionAlgorithm = buildTransforms(pr.Encr)
			}
			prevEncr = p.EncryptionAlgorithm
			p.PseudorandomFunction = buildTransforms(pr.Prf)
			p.IntegrityAlgorithm = buildTransforms(pr.Integ)
			p.DiffieHellmanGroup = buildTransforms(pr.DH)
			p.ExtendedSequenceNumbers = buildTransforms(pr.ESN)
		}
		return sa, nil
	case "KE":
		return &message.KeyExchange{DiffieHellmanGroup: ps.B, KeyExchangeData: clone(ps.Data)}, nil
	case "IDi":
		return &message.IdentificationInitiator{IDType: ps.A, IDData: clone(ps.Data)}, nil
	case "IDr":
		return &message.IdentificationResponder{IDType: ps.A, IDData: clone(ps.Data)}, nil
	case "CERT":
		return &message.Certificate{CertificateEncoding: ps.A, CertificateData: clone(ps.Data)}, nil
	case "CERTREQ":
		return &message.CertificateRequest{CertificateEncoding: ps.A, CertificationAuthority: clone(ps.Data)}, nil
	case "AUTH":
		return &message.Authentication{AuthenticationMethod: ps.A, AuthenticationData: clone(ps.Data)}, nil
	case "Nonce":
		return &message.Nonce{NonceData: clone(ps.Data)}, nil
	case "N":
		return &message.Notification{
			ProtocolID: ps.A, NotifyMessageType: ps.B,
			SPI: clone(ps.SPI), NotificationData: clone(ps.Data),
		}, nil
	case "D":
		d := &message.Delete{ProtocolID: ps.A, SPISize: ps.SPISize, NumberOfSPI: ps.NumSPI}
		d.SPIs = append(d.SPIs, ps.SPIs...)
		return d, nil
	case "V":
		return &message.VendorID{VendorIDData: clone(ps.Data)}, nil
	case "TSi":
		return &message.TrafficSelectorInitiator{TrafficSelectors: buildTS(ps.TS)}, nil
	case "TSr":
		return &message.TrafficSelectorResponder{TrafficSelectors: buildTS(ps.TS)}, nil
	case "CP":
		c := &message.Configuration{ConfigurationType: ps.A}
		for _, a := range ps.Attrs {
			c.ConfigurationAttribute.BuildConfigurationAttribute(a.Type, a.Value)
		}
		return c, nil
	case "EAP":
		return buildEAP(ps.EAP)
	}
	return nil, fmt.Errorf("unknown payload kind %q", ps.Kind)
}

func buildPayloads(ps []PayloadSpec) (message.IKEPayloadContainer, error) {
	var c message.IKEPayloadContainer
	for i := range ps {
		p, err := buildPayload(&ps[i])
		if err != nil {
			return nil, err
		}
		c = append(c, p)
	}
	return c, nil
}

// build constructs the library message. The header is made with NewMessage and
// then adjusted (version, raw flags) through exported fields.
func (m *MsgSpec) build() (*message.IKEMessage, error) {
	c, err := buildPayloads(m.Payloads)
	if err != nil {
		return nil, err
	}
	msg := message.NewMessage(m.ISPI, m.RSPI, m.Exch, false, false, m.MsgID, c)
	msg.MajorVersion = m.Major
	msg.MinorVersion = m.Minor
	msg.Flags = m.Flags
	msg.NextPayload = m.HdrNext
	if m.Junk {
		msg.PayloadBytes = []byte{0x2e, 0, 0, 8, 0xde, 0xad, 0xbe, 0xef}
	}
	return msg, nil
}

// ---------------------------------------------------------------------------
// extract
// ---------------------------------------------------------------------------

func extractTransforms(c message.TransformContainer) []TransformSpec {
	var out []TransformSpec
	for _, t := range c {
		if t == nil {
			out = append(out, TransformSpec{Type: 0xff})
			continue
		}
		ts := TransformSpec{Type: t.TransformType, ID: t.TransformID}
		if t.AttributePresent {
			ts.HasAttr = true
			ts.AType = t.AttributeType
			if t.AttributeFormat != message.AttributeFormatUseTLV {
				ts.TV = true
				ts.AValue = t.AttributeValue
			} else {
				ts.AVar = clone(t.VariableLengthAttributeValue)
			}
		}
		out = append(out, ts)
	}
	return out
}

func extractTS(c message.IndividualTrafficSelectorContainer) []TSSpec {
	var out []TSSpec
	for _, t := range c {
		if t == nil {
			out = append(out, TSSpec{Type: 0xff})
			continue
		}
		out = append(out, TSSpec{
			Type: t.TSType, Proto: t.IPProtocolID, SPort: t.StartPort, EPort: t.EndPort,
			SAddr: clone(t.StartAddress), EAddr: clone(t.EndAddress),
		})
	}
	return out
}

// yieldMute is set while harness-side observation runs library code whose
// yield count is not a function of its input (GetAttr ranges over a map).
var yieldMute bool

func extractEAP(p *message.PayloadEap) *EAPSpec {
	if p == nil || p.EAP == nil {
		return &EAPSpec{Kind: "nil"}
	}
	e := &EAPSpec{Code: uint8(p.Code), ID: p.Identifier}
	switch d := p.EapTypeData.(type) {
	case nil:
	case *eap.EapIdentity:
		e.Kind = "identity"
		e.Data = clone(d.IdentityData)
	case *eap.EapNotification:
		e.Kind = "notification"
		e.Data = clone(d.NotificationData)
	case *eap.EapNak:
		e.Kind = "nak"
		e.Data = clone(d.NakData)
	case *eap.EapExpanded:
		e.Kind = "expanded"
		e.VendorID = d.VendorID
		e.VendorType = d.VendorType
		e.Data = clone(d.VendorData)
	case *eap.EapAkaPrime:
		e.Kind = "aka"
		e.SubType = uint8(d.SubType())
		prev := yieldMute
		if schedHook != nil {
			yieldMute = true
		}
		for t := 0; t < 256; t++ {
			a, err := d.GetAttr(eap.EapAkaPrimeAttrType(t))
			if err != nil {
				continue
			}
			e.Attrs = append(e.Attrs, AkaAttrSpec{Type: uint8(a.GetAttrType()), Value: clone(a.GetValue())})
		}
		if schedHook != nil {
			yieldMute = prev
		}
	default:
		e.Kind = fmt.Sprintf("unknown:%T", d)
	}
	return e
}

func extractPayload(p message.IKEPayload) PayloadSpec {
	switch v := p.(type) {
	case *message.SecurityAssociation:
		ps := PayloadSpec{Kind: "SA"}
		for _, pr := range v.Proposals {
			if pr == nil {
				ps.Proposals = append(ps.Proposals, ProposalSpec{Num: 0xff, Proto: 0xff})
				continue
			}
			ps.Proposals = append(ps.Proposals, ProposalSpec{
				Num: pr.ProposalNumber, Proto: pr.ProtocolID, SPI: clone(pr.SPI),
				Encr:  extractTransforms(pr.EncryptionAlgorithm),
				Prf:   extractTransforms(pr.PseudorandomFunction),
				Integ: extractTransforms(pr.IntegrityAlgorithm),
				DH:    extractTransforms(pr.DiffieHellmanGroup),
				ESN:   extractTransforms(pr.ExtendedSequenceNumbers),
			})
		}
		return ps
	case *message.KeyExchange:
		return PayloadSpec{Kind: "KE", B: v.DiffieHellmanGroup, Data: clone(v.KeyExchangeData)}
	case *message.IdentificationInitiator:
		return PayloadSpec{Kind: "IDi", A: v.IDType, Data: clone(v.IDData)}
	case *message.IdentificationResponder:
		return PayloadSpec{Kind: "IDr", A: v.IDType, Data: clone(v.IDData)}
	case *message.Certificate:
		return PayloadSpec{Kind: "CERT", A: v.CertificateEncoding, Data: clone(v.CertificateData)}
	case *message.CertificateRequest:
		return PayloadSpec{Kind: "CERTREQ", A: v.CertificateEncoding, Data: clone(v.CertificationAuthority)}
	case *message.Authentication:
		return PayloadSpec{Kind: "AUTH", A: v.AuthenticationMethod, Data: clone(v.AuthenticationData)}
	case *message.Nonce:
		return PayloadSpec{Kind: "Nonce", Data: clone(v.NonceData)}
	case *message.Notification:
		return PayloadSpec{Kind: "N", A: v.ProtocolID, B: v.NotifyMessageType, SPI: clone(v.SPI), Data: clone(v.NotificationData)}
	case *message.Delete:
		ps := PayloadSpec{Kind: "D", A: v.ProtocolID, SPISize: v.SPISize, NumSPI: v.NumberOfSPI}
		ps.SPIs = append(ps.SPIs, v.SPIs...)
		return ps
	case *message.VendorID:
		return PayloadSpec{Kind: "V", Data: clone(v.VendorIDData)}
	case *message.TrafficSelectorInitiator:
		return PayloadSpec{Kind: "TSi", TS: extractTS(v.TrafficSelectors)}
	case *message.TrafficSelectorResponder:
		return PayloadSpec{Kind: "TSr", TS: extractTS(v.TrafficSelectors)}
	case *message.Configuration:
		ps := PayloadSpec{Kind: "CP", A: v.ConfigurationType}
		for _, a := range v.ConfigurationAttribute {
			if a == nil {
				ps.Attrs = append(ps.Attrs, CPAttrSpec{Type: 0xffff})
				continue
			}
			ps.Attrs = append(ps.Attrs, CPAttrSpec{Type: a.Type, Value: clone(a.Value)})
		}
		return ps
	case *message.PayloadEap:
		return PayloadSpec{Kind: "EAP", EAP: extractEAP(v)}
	case *message.Encrypted:
		return PayloadSpec{Kind: "SK", A: v.NextPayload, Data: clone(v.EncryptedData)}
	case nil:
		return PayloadSpec{Kind: "nil"}
	}
	return PayloadSpec{Kind: fmt.Sprintf("unknown:%T", p)}
}

func extractPayloads(c message.IKEPayloadContainer) []PayloadSpec {
	var out []PayloadSpec
	for _, p := range c {
		out = append(out, extractPayload(p))
	}
	return out
}

func extract(m *message.IKEMessage) *MsgSpec {
	s := &MsgSpec{}
	if m == nil {
		return s
	}
	if m.IKEHeader != nil {
		s.ISPI, s.RSPI = m.InitiatorSPI, m.ResponderSPI
		s.Major, s.Minor = m.MajorVersion, m.MinorVersion
		s.Exch, s.Flags, s.MsgID = m.ExchangeType, m.Flags, m.MessageID
	}
	s.Payloads = extractPayloads(m.Payloads)
	return s
}

// ---------------------------------------------------------------------------
// canonical form: nil and empty byte strings / lists are equal; header
// bookkeeping (NextPayload, PayloadBytes) is not part of a spec at all.
// ---------------------------------------------------------------------------

type canonW struct{ b []byte }

func (w *canonW) u8(v uint8)   { w.b = append(w.b, v) }
func (w *canonW) u16(v uint16) { w.b = binary.BigEndian.AppendUint16(w.b, v) }
func (w *canonW) u32(v uint32) { w.b = binary.BigEndian.AppendUint32(w.b, v) }
func (w *canonW) u64(v uint64) { w.b = binary.BigEndian.AppendUint64(w.b, v) }
func (w *canonW) bytes(v []byte) {
	w.u32(uint32(len(v)))
	w.b = append(w.b, v...)
}
func (w *canonW) str(s string) { w.bytes([]byte(s)) }
func (w *canonW) boolean(v bool) {
	if v {
		w.u8(1)
	} else {
		w.u8(0)
	}
}

func (w *canonW) transforms(ts []TransformSpec) {
	w.u32(uint32(len(ts)))
	for _, t := range ts {
		w.u8(t.Type)
		w.u16(t.ID)
		w.boolean(t.HasAttr)
		if t.HasAttr {
			w.boolean(t.TV)
			w.u16(t.AType)
			if t.TV {
				w.u16(t.AValue)
			} else {
				w.bytes(t.AVar)
			}
		}
	}
}

func (w *canonW) payload(p *PayloadSpec) {
	w.str(p.Kind)
	w.u8(p.A)
	w.u16(p.B)
	w.bytes(p.Data)
	w.bytes(p.SPI)
	w.u32(uint32(len(p.Proposals)))
	for _, pr := range p.Proposals {
		w.u8(pr.Num)
		w.u8(pr.Proto)
		w.bytes(pr.SPI)
		w.transforms(pr.Encr)
		w.transforms(pr.Prf)
		w.transforms(pr.Integ)
		w.transforms(pr.DH)
		w.transforms(pr.ESN)
	}
	w.u32(uint32(len(p.TS)))
	for _, t := range p.TS {
		w.u8(t.Type)
		w.u8(t.Proto)
		w.u16(t.SPort)
		w.u16(t.EPort)
		w.bytes(t.SAddr)
		w.bytes(t.EAddr)
	}
	w.u32(uint32(len(p.Attrs)))
	for _, a := range p.Attrs {
		w.u16(a.Type)
		w.bytes(a.Value)
	}
	w.u8(p.SPISize)
	w.u16(p.NumSPI)
	w.u32(uint32(len(p.SPIs)))
	for _, s := range p.SPIs {
		w.u32(s)
	}
	if p.EAP == nil {
		w.u8(0)
	} else {
		e := p.EAP
		w.u8(1)
		w.u8(e.Code)
		w.u8(e.ID)
		w.str(e.Kind)
		w.bytes(e.Data)
		w.u32(e.VendorID)
		w.u32(e.VendorType)
		w.u8(e.SubType)
		w.u32(uint32(len(e.Attrs)))
		for _, a := range e.Attrs {
			w.u8(a.Type)
			w.bytes(a.Value)
		}
	}
}

func canonTransforms(ts []TransformSpec) []byte {
	w := &canonW{}
	w.transforms(ts)
	return w.b
}

func canonPayloads(ps []PayloadSpec) []byte {
	w := &canonW{}
	w.u32(uint32(len(ps)))
	for i := range ps {
		w.payload(&ps[i])
	}
	return w.b
}

func (m *MsgSpec) canon() []byte {
	w := &canonW{b: make([]byte, 0, 256)}
	w.u64(m.ISPI)
	w.u64(m.RSPI)
	w.u8(m.Major)
	w.u8(m.Minor)
	w.u8(m.Exch)
	w.u8(m.Flags)
	w.u32(m.MsgID)
	w.u32(uint32(len(m.Payloads)))
	for i := range m.Payloads {
		w.payload(&m.Payloads[i])
	}
	return w.b
}

func specEqual(a, b *MsgSpec) bool {
	return string(a.canon()) == string(b.canon())
}

// kinds returns the payload kind sequence, for abstract traces.
func (m *MsgSpec) kinds() string {
	s := ""
	for i, p := range m.Payloads {
		if i > 0 {
			s += ","
		}
		s += p.Kind
		if p.Kind == "EAP" && p.EAP != nil {
			s += ":" + p.EAP.Kind
		}
	}
	return s
}

// ---------------------------------------------------------------------------
// wire sizes computed from the spec alone (domain filter for the generator)
// ---------------------------------------------------------------------------

func transformsSize(ts []TransformSpec) int {
	n := 0
	for _, t := range ts {
		n += 8
		if t.HasAttr {
			n += 4
			if !t.TV {
				n += len(t.AVar)
			}
		}
	}
	return n
}

func akaAttrSize(a AkaAttrSpec) int {
	switch a.Type {
	case 1, 2, 11:
		return 20
	case 3, 23:
		return (4 + len(a.Value) + 3) / 4 * 4
	case 24:
		return 4
	case 134:
		return (4 + len(a.Value)) / 4 * 4
	}
	return 0
}

// bodySize is the size of the payload body (without the 4-octet generic header).
func (p *PayloadSpec) bodySize() int {
	switch p.Kind {
	case "SA":
		n := 0
		for _, pr := range p.Proposals {
			n += 8 + len(pr.SPI) + transformsSize(pr.Encr) + transformsSize(pr.Prf) +
				transformsSize(pr.Integ) + transformsSize(pr.DH) + transformsSize(pr.ESN)
		}
		return n
	case "KE", "IDi", "IDr", "AUTH":
		return 4 + len(p.Data)
	case "CERT", "CERTREQ":
		return 1 + len(p.Data)
	case "Nonce", "V":
		return len(p.Data)
	case "N":
		return 4 + len(p.SPI) + len(p.Data)
	case "D":
		return 4 + int(p.SPISize)*len(p.SPIs)
	case "TSi", "TSr":
		n := 4
		for _, t := range p.TS {
			if t.Type == 7 {
				n += 16
			} else {
				n += 40
			}
		}
		return n
	case "CP":
		n := 4
		for _, a := range p.Attrs {
			n += 4 + len(a.Value)
		}
		return n
	case "EAP":
		e := p.EAP
		switch e.Kind {
		case "":
			return 4
		case "identity", "notification", "nak":
			return 5 + len(e.Data)
		case "expanded":
			return 12 + len(e.Data)
		case "aka":
			n := 8
			for _, a := range e.Attrs {
				n += akaAttrSize(a)
			}
			return n
		}
	}
	return 0
}

func (m *MsgSpec) innerSize() int {
	n := 0
	for i := range m.Payloads {
		n += 4 + m.Payloads[i].bodySize()
	}
	return n
}

// maxInnerProtected: 4 (SK hdr) + 16 (IV) + ct + icv <= 65535, ct = inner + pad, pad in 1..16.
func maxInnerProtected(icv int) int {
	ct := (65535 - 4 - 16 - icv) / 16 * 16
	return ct - 1
}
