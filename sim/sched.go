package main

import (
	"fmt"
	"math/big"
	"os"
	"runtime"
	"strings"
	"sync"
	"sync/atomic"
)

// ---------------------------------------------------------------------------
// C18 — independent SAs and messages can be processed concurrently.
//
// Serialized mode: every task runs on its own goroutine but exactly one holds
// the baton; switches happen only at yield points (a simyield.Y call before
// every library statement in the AST-instrumented build, every SimRand read,
// every spy call) and are dictated by the scenario's explicit schedule, so an
// interleaving is data: replayable and shrinkable.
//
// Parallel mode: the scenario is cut into rounds; in each round a seeded subset
// of tasks executes its next operation concurrently on real cores under the
// race detector. The simulator decides which operations are unordered.
// ---------------------------------------------------------------------------

type schedAbort struct{}

var serializedDeferred int64 // switches postponed because of critical sections (process total, for evidence)

var schedHook func(site int)

// schedLockHook is told (by the instrumented build) when the calling goroutine enters or leaves a critical
// section of the library. A task is never parked inside one: a parked lock holder would block the next task
// for real, and the simulator could not tell that from a deadlock.
var schedLockHook func(delta int)

// schedYield is the yield point owned by the simulator itself (SimRand, spies).
func schedYield(site string) {
	if schedHook != nil && !yieldMute {
		if site == "rand" {
			schedHook(-1)
		} else {
			schedHook(-2)
		}
	}
}

type taskRun struct {
	id        int
	world     *World
	steps     []Step
	resume    chan struct{}
	done      bool
	savedRand *randState
	harness   any
	errs      []error
	gid       int64 // the task's own goroutine; yield calls from any other goroutine are ignored
	lockDepth int   // critical sections of the library this task is inside right now
}

type sched struct {
	tasks    []*taskRun
	cur      *taskRun
	quantum  int
	yielded  chan struct{}
	yields   int64
	switches int
	sig      uint64 // hash of the realised (task, site) switch sequence
	deferred int64  // switches postponed because the task was inside a critical section
	baseG    int    // goroutines alive once all tasks were started
	finished atomic.Int32
}

func (s *sched) lockHook(delta int) {
	t := s.cur
	if t == nil || goid() != t.gid {
		return
	}
	t.lockDepth += delta
	if t.lockDepth < 0 {
		t.lockDepth = 0
	}
}

func (s *sched) hook(site int) {
	t := s.cur
	if t == nil {
		return
	}
	// A goroutine the LIBRARY started is not a task: it never holds the baton, runs freely, and its yield
	// points must not count (they would perturb the quantum and with it the replayability of the schedule).
	// Goroutine identity is slow to look up, so it is looked up only while more goroutines exist than the
	// simulator itself started (cheap to ask).
	foreign := runtime.NumGoroutine() > s.baseG-int(s.finished.Load())
	if foreign && goid() != t.gid {
		return
	}
	s.yields++
	s.quantum--
	if s.quantum > 0 {
		return
	}
	if !foreign && goid() != t.gid {
		return
	}
	if t.lockDepth > 0 {
		s.deferred++ // switch at the first yield point after the critical section
		return
	}
	s.sig = mix(s.sig^uint64(t.id+1), uint64(site+3))
	s.switches++
	t.savedRand = simRand.cur
	s.cur = nil
	s.yielded <- struct{}{}
	<-t.resume
	simRand.cur = t.savedRand
	errSink = &t.errs
}

func (s *sched) runTask(t *taskRun) {
	defer func() {
		if p := recover(); p != nil {
			t.harness = p
		}
		t.done = true
		s.cur = nil
		s.finished.Add(1)
		s.yielded <- struct{}{}
	}()
	t.gid = goid()
	<-t.resume
	simRand.cur = nil
	errSink = &t.errs
	for i := range t.steps {
		t.world.step = i
		t.world.exec(&t.steps[i])
	}
	t.world.trace = append(t.world.trace, errsDigest(t.errs), heldDigest(t.world))
	errSink = nil
}

// heldDigest: values the library handed out earlier in the task (generated exponents) are read
// again at its end; they must still be what they were, whatever other tasks did meanwhile.
func heldDigest(w *World) string {
	held, _ := w.ext["held_exponents"].([]*big.Int)
	h := uint64(0)
	for _, x := range held {
		h = fnv1a(h, x.Bytes())
		h = fnv1a(h, []byte{0})
	}
	return fmt.Sprintf("held_values_reread_at_task_end:n=%d:%016x", len(held), h)
}

func (s *sched) give(t *taskRun, quantum int) {
	s.cur = t
	s.quantum = quantum
	t.resume <- struct{}{}
	<-s.yielded
}

// runSerialized executes tasks under an explicit schedule. Returns per-task traces.
func runSerialized(tasks []Task, schedule []SchedSlot) (traces [][]string, yields int64, switches int, sig uint64) {
	s := &sched{yielded: make(chan struct{})}
	for i := range tasks {
		t := &taskRun{id: i, world: newWorld("C18"), steps: tasks[i].Steps, resume: make(chan struct{})}
		s.tasks = append(s.tasks, t)
		go s.runTask(t)
	}
	s.baseG = runtime.NumGoroutine()
	prev, prevL := schedHook, schedLockHook
	schedHook, schedLockHook = s.hook, s.lockHook
	for _, slot := range schedule {
		if slot.Task < 0 || slot.Task >= len(s.tasks) {
			continue
		}
		t := s.tasks[slot.Task]
		if t.done {
			continue
		}
		q := slot.Quantum
		if q < 1 {
			q = 1
		}
		s.give(t, q)
	}
	for _, t := range s.tasks { // schedule exhausted: run the rest to completion, in order
		for !t.done {
			s.give(t, 1<<30)
		}
	}
	schedHook, schedLockHook = prev, prevL
	serializedDeferred += s.deferred
	simRand.cur = nil
	for _, t := range s.tasks {
		if t.harness != nil {
			panic(t.harness)
		}
		traces = append(traces, t.world.trace)
	}
	return traces, s.yields, s.switches, s.sig
}

// ---------------------------------------------------------------------------
// parallel rounds
// ---------------------------------------------------------------------------

type parTask struct {
	world *World
	steps []Step
	next  int
	start chan int // number of ops to run in this round (0 = exit)
	rnd   *taskRandHolder
}

type taskRandHolder struct {
	cur  *randState
	errs *[]error
}

func runParallel(tasks []Task, rounds [][]int, procs int) [][]string {
	if procs > 0 {
		defer runtime.GOMAXPROCS(runtime.GOMAXPROCS(procs))
	}
	pts := make([]*parTask, len(tasks))
	goids := make(chan [2]int64, len(tasks))
	var wg sync.WaitGroup
	var roundWG sync.WaitGroup
	for i := range tasks {
		pt := &parTask{world: newWorld("C18"), steps: tasks[i].Steps, start: make(chan int), rnd: &taskRandHolder{errs: new([]error)}}
		pts[i] = pt
		wg.Add(1)
		go func(i int, pt *parTask) {
			defer wg.Done()
			goids <- [2]int64{int64(i), goid()}
			for n := range pt.start {
				for k := 0; k < n && pt.next < len(pt.steps); k++ {
					pt.world.step = pt.next
					pt.world.exec(&pt.steps[pt.next])
					pt.next++
				}
				roundWG.Done()
			}
		}(i, pt)
	}
	m := map[int64]*taskRandHolder{}
	for range tasks {
		g := <-goids
		m[g[1]] = pts[g[0]].rnd
	}
	simRand.byGoid = m
	simRand.parallel.Store(true)
	for _, round := range rounds {
		for _, ti := range round {
			if ti >= 0 && ti < len(pts) {
				roundWG.Add(1)
			}
		}
		for _, ti := range round { // barrier release
			if ti >= 0 && ti < len(pts) {
				pts[ti].start <- 1
			}
		}
		roundWG.Wait() // join
	}
	// leftovers: all remaining operations of all tasks, concurrently
	for _, pt := range pts {
		roundWG.Add(1)
		_ = pt
	}
	for _, pt := range pts {
		pt.start <- 1 << 30
	}
	roundWG.Wait()
	for _, pt := range pts {
		close(pt.start)
	}
	wg.Wait()
	simRand.parallel.Store(false)
	simRand.byGoid = nil
	var traces [][]string
	for _, pt := range pts {
		pt.world.trace = append(pt.world.trace, errsDigest(*pt.rnd.errs), heldDigest(pt.world))
		traces = append(traces, pt.world.trace)
	}
	return traces
}

// ---------------------------------------------------------------------------
// the op
// ---------------------------------------------------------------------------

func init() {
	ops["c18"] = opC18
	props["C18"] = &PropDef{
		ID: "C18", Level: "exploration",
		Gen:   genC18,
		Count: map[string]int{"quick": c18Serialized["quick"] + c18Parallel["quick"], "thorough": c18Serialized["thorough"] + c18Parallel["thorough"]},
		Needs: []string{"yield", "race"},
		Rule: "scenario = 2..8 (parallel mode: up to 64) tasks, each with private SAs, messages, cipher objects and buffers, running 4..30 operations over the " +
			"API surface the statement names (plain encode/decode, protect/unprotect incl. rejected forgeries, IKE and Child key derivation, DH, transform<->algorithm " +
			"mapping, EAP marshal/unmarshal, AT_MAC, PRF', GenerateRandomNumber/Uint8) plus read-only decoding of one shared input slice. Serialized mode (first " +
			"part of the index range): the tasks are interleaved by an explicit seeded schedule of (task, quantum) slots at statement-level yield points inserted " +
			"by go/ast into a scratch copy of the working tree; oracle: each task's observable trace (outcome classes, digests of every output incl. ciphertext, " +
			"since each task has its own random stream) == the trace of the same task run alone. Parallel mode (rest of the range): seeded rounds decide which " +
			"operations run concurrently on real cores (GOMAXPROCS 2/4/8/16) under the Go race detector; oracle: no race report, no fatal runtime error, same " +
			"per-task traces. Non-trivial = at least 2 tasks and at least one context switch (serialized) or one round with >= 2 concurrent operations (parallel); " +
			"distinct = distinct realised (task, yield-site) switch sequences resp. distinct round structures.",
		Components: Components{
			Real: defaultComponents.Real,
			Stub: append(append([]string{}, defaultComponents.Stub...), "task scheduler (baton over go/ast-inserted yield points; seeded rounds under -race)"),
		},
	}
}

var (
	c18Serialized = map[string]int{"quick": 7000, "thorough": 160000}
	c18Parallel   = map[string]int{"quick": 900, "thorough": 20000}
)

func c18Mode() string { return os.Getenv("IKESIM_C18_MODE") }

// prepareShared (re)builds the read-only inputs shared by several tasks: plain
// datagrams (decode_shared) and protected ones, possibly forged, placed in a
// buffer with spare capacity (unprotect_shared). Rebuilt before every run so that
// a decoder that writes into its input cannot leak from one run into the next.
func prepareShared(tasks []Task) {
	sharedInputs = nil
	put := func(ref int, b []byte) {
		for len(sharedInputs) <= ref {
			sharedInputs = append(sharedInputs, nil)
		}
		sharedInputs[ref] = b
	}
	for _, t := range tasks {
		for i := range t.Steps {
			st := &t.Steps[i]
			if st.Msg == nil || st.Ref < 0 || (st.Ref < len(sharedInputs) && sharedInputs[st.Ref] != nil) {
				continue
			}
			switch st.Op {
			case "decode_shared":
				r := &callResult{}
				guard(r, func() {
					if m, err := st.Msg.build(); err == nil {
						if b, err := m.Encode(); err == nil {
							put(st.Ref, b[:len(b):len(b)])
						}
					}
				})
			case "unprotect_shared":
				if st.Suite == nil || st.Keys == nil {
					continue
				}
				key, err := newKeyObj(*st.Suite, st.Keys)
				m, err2 := st.Msg.build()
				if err != nil || err2 != nil {
					continue
				}
				out, res := protect(m, key, "I", &RandScript{Seed: st.SpiI})
				if res.class() != "ok" {
					continue
				}
				if st.Fault != nil && st.Fault.Kind == "bitflip" && st.Fault.Byte < len(out) {
					out[st.Fault.Byte] ^= 1 << uint(st.Fault.Bit&7)
				}
				put(st.Ref, rxBuffer(out, 64)) // spare capacity behind the datagram, as in a receive buffer
			}
		}
	}
}

func soloTraces(tasks []Task) [][]string {
	var out [][]string
	for i := range tasks {
		prepareShared(tasks)
		tr, _, _, _ := runSerialized([]Task{tasks[i]}, nil)
		out = append(out, tr[0])
	}
	return out
}

func opC18(w *World, s *Step) (string, string) {
	if len(s.Tasks) == 0 {
		return "notasks", "notasks"
	}
	parallel := len(s.Rounds) > 0 || s.Procs > 0
	prepareShared(s.Tasks)
	// The interleaved / parallel run comes FIRST, so that lazily initialised library state
	// (if a tree has any) is cold when operations overlap; the solo runs follow.
	prepareShared(s.Tasks)
	var solo, inter [][]string
	mode := "serialized"
	if parallel {
		mode = "parallel"
		if c18Mode() != "race" {
			w.stats.inc("c18_parallel_without_race_detector")
		}
		inter = runParallel(s.Tasks, s.Rounds, s.Procs)
		conc := 0
		for _, r := range s.Rounds {
			if len(r) >= 2 {
				conc++
			}
		}
		w.stats.add("c18_rounds_with_concurrency", int64(conc))
		w.stats.add("fault_schedule_rounds_with_overlapping_operations", int64(conc))
		w.stats.inc(fmt.Sprintf("c18_gomaxprocs_%d", s.Procs))
		if len(s.Tasks) >= 2 {
			w.nontriv = true
		}
		h := uint64(len(s.Tasks))
		for _, r := range s.Rounds {
			for _, t := range r {
				h = mix(h, uint64(t+1))
			}
			h = mix(h, 0)
		}
		w.abs = h
	} else {
		if c18Mode() != "yield" && os.Getenv("IKESIM_YIELD_SITES") == "" {
			w.stats.inc("c18_serialized_without_statement_yield_points")
		}
		var yields int64
		var switches int
		var sig uint64
		before := serializedDeferred
		sched := s.Schedule
		if os.Getenv("IKESIM_C18_SEQUENTIAL") != "" {
			sched = nil // tasks one after the other, nobody is ever parked (used to classify a watchdog hit)
			if os.Getenv("IKESIM_C18_DEGRADED") != "" {
				w.stats.inc("c18_serialized_phase_degraded_to_sequential")
			}
		}
		inter, yields, switches, sig = runSerialized(s.Tasks, sched)
		if d := serializedDeferred - before; d > 0 {
			w.stats.add("c18_switches_postponed_inside_critical_section", d)
		}
		w.stats.add("c18_yield_points_passed", yields)
		w.stats.add("c18_context_switches", int64(switches))
		w.stats.add("fault_schedule_forced_context_switches", int64(switches))
		if len(s.Tasks) >= 2 && switches > 0 {
			w.nontriv = true
		}
		w.abs = sig
	}
	solo = soloTraces(s.Tasks)
	w.stats.add("c18_tasks", int64(len(s.Tasks)))
	for ti := range s.Tasks {
		a, b := solo[ti], inter[ti]
		w.stats.add("c18_task_ops", int64(len(a)))
		if len(a) != len(b) {
			w.violate("task_trace_differs", "length", "%s mode: task %d produced %d events when run with the others, %d when run alone", mode, ti, len(b), len(a))
			continue
		}
		for k := range a {
			if a[k] != b[k] {
				op := a[k]
				if i := strings.Index(op, ":"); i > 0 {
					op = op[:i]
				}
				w.violate("task_trace_differs", op, "%s mode: task %d, operation %d (%s) returned something else than when the task runs alone:\n alone       %s\n interleaved %s",
					mode, ti, k, op, a[k], b[k])
				break
			}
		}
	}
	th := uint64(0)
	for _, tr := range inter {
		for _, e := range tr {
			th = fnvStr(th, e)
		}
		th = fnv1a(th, []byte{1})
	}
	return fmt.Sprintf("%s:tasks=%d:traces=%016x:sig=%016x", mode, len(s.Tasks), th, w.abs), mode
}

// ---------------------------------------------------------------------------
// task generation
// ---------------------------------------------------------------------------

func genTaskSteps(r *Rng, nops int, sharedMsg *MsgSpec, sharedProt *Step, allowSlow bool) []Step {
	var steps []Step
	su := suiteByIndex(r.Intn(54))
	su.DH = 2
	steps = append(steps, genSAStep(r, 0, su, "direct", "kdf"))
	steps = append(steps, Step{Op: "cipher_new", Cipher: 0, N: su.Encr, Key: r.Bytes(su.Encr)})
	cfg := swarmGenCfg(r, 3000)
	cfg.SizeClass = Pick(r, 0, 1)
	next := 0
	var sent []int
	nct := 0
	for len(steps) < nops {
		switch r.Intn(20) {
		case 0, 1, 2:
			id := next
			next++
			steps = append(steps, Step{Op: "send", SA: 0, Dgram: id, From: Pick(r, "I", "R"), Msg: genMsg(r, &cfg), Rand: &RandScript{Seed: r.U64(), Chunk: Pick(r, 0, 0, 3)}})
			sent = append(sent, id)
		case 3, 4, 5:
			if len(sent) == 0 {
				continue
			}
			st := Step{Op: "deliver", Dgram: sent[r.Intn(len(sent))], Rx: genRx(r), Obj: Pick(r, "long", "twin", "peer")}
			if r.Chance(1, 3) {
				st.Fault = &Fault{Kind: Pick(r, "bitflip", "truncate"), Byte: r.Intn(100), Bit: r.Intn(8), Len: r.Intn(100)}
			}
			steps = append(steps, st)
		case 6, 7:
			steps = append(steps, genChildStep(r, 0))
		case 8:
			s2 := suiteByIndex(r.Intn(54))
			steps = append(steps, Step{Op: "kdf", Suite: &s2, Nonce: r.Bytes(r.Range(1, 64)), Secret: r.Bytes(r.Range(1, 64)), SpiI: r.U64(), SpiR: r.U64()})
		case 9:
			g := 2
			if r.Bool() {
				// the same exponent used again (KE retransmitted after a COOKIE / INVALID_KE_PAYLOAD round, RFC 7296 §2.6)
				x := r.Bytes(Pick(r, 2, 16, 32))
				for k := r.Range(2, 3); k > 0; k-- {
					steps = append(steps, Step{Op: "dh_pub", Group: g, X: x})
				}
				break
			}
			steps = append(steps, Step{Op: "dh_shared", Group: g, X: r.Bytes(Pick(r, 2, 16, 32)), Y: r.Bytes(Pick(r, 1, 64, 128))})
		case 10:
			st := Step{Op: "dh_gen", Rand: &RandScript{Seed: r.U64(), Chunk: Pick(r, 0, 64)}}
			if r.Chance(1, 3) { // the first draws fall below the floor: the redraw branch runs
				st.Rand.PatReads, st.Rand.PatByte = r.Range(1, 2), 0
				if st.Rand.Chunk > 0 {
					st.Rand.PatReads *= 4
				}
			}
			steps = append(steps, st)
			if r.Chance(1, 3) { // a handshake as responder whose random source fails (or not), either group
				s2 := suiteByIndex(r.Intn(54))
				ns := Step{Op: "dh_newsa", Suite: &s2, X: r.Bytes(32), Nonce: r.Bytes(16), Nonce2: r.Bytes(16), SpiI: r.U64(), SpiR: r.U64(), Rand: &RandScript{Seed: r.U64()}}
				if s2.DH == 14 || r.Bool() {
					ns.Rand.FailAt, ns.Rand.FailMode = 1, Pick(r, "err", "eof")
				}
				if s2.DH == 14 && r.Chance(1, 4) {
					ns.Rand.FailAt = 0
				}
				steps = append(steps, ns)
			}
		case 11, 12:
			steps = append(steps, Step{Op: "plain_codec", Msg: genMsg(r, &cfg)})
		case 13:
			m := &MsgSpec{Payloads: []PayloadSpec{{Kind: "EAP", EAP: genEAP(r, &cfg)}}}
			steps = append(steps, Step{Op: "eap_ops", Msg: m, Key: r.Bytes(32)})
		case 14:
			steps = append(steps, Step{Op: "prf_prime", Key: r.Bytes(16), Data: r.Bytes(16), Nonce: r.Bytes(r.Range(0, 40))})
		case 15:
			s2 := suiteByIndex(r.Intn(54))
			steps = append(steps, Step{Op: "mapping", Suite: &s2, SpiI: r.U64(), SpiR: r.U64()})
		case 16:
			if r.Bool() {
				steps = append(steps, Step{Op: "rand_u8", Rand: &RandScript{Seed: r.U64()}})
			} else {
				// a datagram carrying an unknown payload with the critical flag set: must be refused, and the
				// error must keep naming THIS payload type whatever other tasks reject meanwhile
				t := Pick[uint8](r, 1, 17, 32, 49, 77, 130, 200, 255)
				body := r.Bytes(r.Intn(12))
				l := 4 + len(body)
				d := make([]byte, 28)
				r.Fill(d[:16])
				d[16], d[17], d[18], d[19] = t, 0x20, 37, 8
				total := 28 + l
				d[24], d[25], d[26], d[27] = byte(total>>24), byte(total>>16), byte(total>>8), byte(total)
				d = append(d, 0, Pick[uint8](r, 0x80, 0x80, 0x00), byte(l>>8), byte(l)) // critical: refused; not critical: skipped
				d = append(d, body...)
				steps = append(steps, Step{Op: "decode_raw", Data: d})
			}
		case 17:
			steps = append(steps, Step{Op: "enc", Cipher: 0, Ref: nct, Data: r.Bytes(r.SmallLen(200)), Rand: &RandScript{Seed: r.U64()}})
			steps = append(steps, Step{Op: "dec", Cipher: 0, Src: "own", N: 0, Ref: nct})
			nct++
		case 18:
			if sharedMsg != nil && r.Bool() {
				steps = append(steps, Step{Op: "decode_shared", Ref: 0, Msg: sharedMsg})
			} else if sharedProt != nil {
				st := *sharedProt
				st.Rx = &RxOpts{PreHdr: r.Bool()}
				steps = append(steps, st)
			}
		case 19:
			if allowSlow && r.Chance(1, 4) {
				s2 := suiteByIndex(r.Intn(27))
				s2.DH = 2
				steps = append(steps, Step{Op: "handshake", Suite: &s2, Nonce: r.Bytes(16), Nonce2: r.Bytes(16), SpiI: r.U64(), SpiR: r.U64(),
					Rand: &RandScript{Seed: r.U64()}, Rand2: &RandScript{Seed: r.U64()}})
			}
		}
	}
	return steps
}

func genC18(r *Rng, idx int, tier string) *Scenario {
	sc := &Scenario{}
	st := Step{Op: "c18"}
	nser := c18Serialized[tier]
	if v := os.Getenv("IKESIM_C18_NSER"); v != "" {
		fmt.Sscan(v, &nser)
	}
	parallel := idx >= nser
	ntasks := Pick(r, 2, 2, 3, 4, 4, 6, 8)
	nops := Pick(r, 4, 8, 12, 20, 30)
	if parallel {
		ntasks = Pick(r, 2, 4, 8, 8, 16, 32, 64)
		nops = Pick(r, 4, 6, 10, 16)
	}
	cfg := GenCfg{MaxPayloads: 4, SizeClass: 1, MaxInner: 2000, Kinds: allKinds}
	var shared *MsgSpec
	if r.Chance(2, 3) {
		shared = genMsg(r, &cfg)
	}
	var sharedProt *Step
	if r.Chance(2, 3) {
		su := suiteByIndex(r.Intn(9))
		su.Prf, su.DH = "sha1", 2
		sp := &Step{Op: "unprotect_shared", Ref: 1, Suite: &su, Keys: genRawKeys(r, su), Msg: genSimpleMsg(r, 3), SpiI: r.U64()}
		if r.Chance(2, 3) { // a forged copy: every decoder must refuse it, first or last
			sp.Fault = &Fault{Kind: "bitflip", Byte: 28 + r.Intn(40), Bit: r.Intn(8)}
		}
		sharedProt = sp
	}
	for i := 0; i < ntasks; i++ {
		steps := genTaskSteps(r, nops, shared, sharedProt, !parallel)
		if parallel {
			// the task's very first operation touches one of the registries / lazily built tables, so that in a
			// cold process the first uses of several tasks overlap (round 0 runs them all at once)
			cfg0 := GenCfg{SizeClass: 1, MaxPayloads: 3, MaxInner: 2000, Kinds: allKinds}
			s2 := suiteByIndex(r.Intn(54))
			var cold Step
			switch r.Intn(6) {
			case 0:
				cold = Step{Op: "eap_ops", Msg: &MsgSpec{Payloads: []PayloadSpec{{Kind: "EAP", EAP: genAka(r, &cfg0)}}}, Key: r.Bytes(32)}
			case 1:
				cold = Step{Op: "mapping", Suite: &s2, SpiI: r.U64(), SpiR: r.U64()}
			case 2:
				cold = Step{Op: "dh_shared", Group: Pick(r, 2, 14), X: r.Bytes(Pick(r, 2, 16)), Y: r.Bytes(Pick(r, 1, 64))}
			case 3:
				cold = Step{Op: "plain_codec", Msg: genMsg(r, &cfg0)}
			case 4:
				cold = Step{Op: "kdf", Suite: &s2, Nonce: r.Bytes(32), Secret: r.Bytes(32), SpiI: r.U64(), SpiR: r.U64()}
			default:
				cold = Step{Op: "dh_gen", Rand: &RandScript{Seed: r.U64()}}
			}
			steps = append([]Step{cold}, steps...)
		}
		if i > 0 && r.Chance(1, 3) {
			// distinct key OBJECTS holding identical key material: the two ends of one SA on different goroutines
			prev := st.Tasks[i-1].Steps
			pi, si := 0, 0
			if parallel {
				pi, si = 1, 1
			}
			if len(prev) > pi && prev[pi].Op == "sa" && len(steps) > si && steps[si].Op == "sa" {
				steps[si] = prev[pi]
			}
		}
		st.Tasks = append(st.Tasks, Task{Steps: steps})
	}
	if parallel {
		st.Procs = []int{2, 4, 8, 16}[idx%4]
		left := make([]int, ntasks)
		total := 0
		for i := range left {
			left[i] = len(st.Tasks[i].Steps)
			total += left[i]
		}
		if ntasks >= 2 {
			// round 0: the FIRST operation of every task, all at once
			var all []int
			for t := 0; t < ntasks; t++ {
				all = append(all, t)
				left[t]--
				total--
			}
			st.Rounds = append(st.Rounds, all)
		}
		for total > 0 && len(st.Rounds) < 4000 {
			var round []int
			width := Pick(r, 2, 2, 3, 4, 8, ntasks)
			for tries := 0; len(round) < width && tries < 4*ntasks; tries++ {
				t := r.Intn(ntasks)
				dup := false
				for _, x := range round {
					dup = dup || x == t
				}
				if !dup && left[t] > 0 {
					round = append(round, t)
					left[t]--
					total--
				}
			}
			if len(round) == 0 {
				break
			}
			st.Rounds = append(st.Rounds, round)
		}
	} else {
		nslots := Pick(r, 10, 40, 100, 200, 400)
		qmax := Pick(r, 3, 10, 50, 200, 1000)
		for i := 0; i < nslots; i++ {
			st.Schedule = append(st.Schedule, SchedSlot{Task: r.Intn(ntasks), Quantum: 1 + r.Intn(qmax)})
		}
	}
	sc.Steps = []Step{st}
	return sc
}

// shrinkC18 minimises a serialized C18 scenario: drop tasks, then steps within
// tasks, then schedule slots, accepting candidates on which the same oracle fires.
func shrinkC18(sc *Scenario, id string, fails func(*Scenario) bool) *Scenario {
	cur := sc.clone()
	if len(cur.Steps) != 1 || cur.Steps[0].Op != "c18" || len(cur.Steps[0].Rounds) > 0 {
		return cur
	}
	// tasks
	for i := len(cur.Steps[0].Tasks) - 1; i >= 0 && len(cur.Steps[0].Tasks) > 2; i-- {
		cand := cur.clone()
		st := &cand.Steps[0]
		st.Tasks = append(st.Tasks[:i:i], st.Tasks[i+1:]...)
		var ns []SchedSlot
		for _, sl := range st.Schedule {
			if sl.Task == i {
				continue
			}
			if sl.Task > i {
				sl.Task--
			}
			ns = append(ns, sl)
		}
		st.Schedule = ns
		if fails(cand) {
			cur = cand
		}
	}
	// steps within tasks (halves, then singles)
	for ti := range cur.Steps[0].Tasks {
		for chunk := len(cur.Steps[0].Tasks[ti].Steps) / 2; chunk >= 1; chunk /= 2 {
			for i := 0; i+chunk <= len(cur.Steps[0].Tasks[ti].Steps); {
				cand := cur.clone()
				t := &cand.Steps[0].Tasks[ti]
				t.Steps = append(t.Steps[:i:i], t.Steps[i+chunk:]...)
				if fails(cand) {
					cur = cand
				} else {
					i += chunk
				}
			}
		}
	}
	// schedule slots
	for chunk := len(cur.Steps[0].Schedule) / 2; chunk >= 1; chunk /= 2 {
		for i := 0; i+chunk <= len(cur.Steps[0].Schedule); {
			cand := cur.clone()
			st := &cand.Steps[0]
			st.Schedule = append(st.Schedule[:i:i], st.Schedule[i+chunk:]...)
			if fails(cand) {
				cur = cand
			} else {
				i += chunk
			}
		}
	}
	return cur
}
