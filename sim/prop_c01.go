package main

import (
	"bytes"

	"github.com/free5gc/ike/message"
)

// ---------------------------------------------------------------------------
// C01 — protected round trip between opposite roles of one IKE SA.
// ---------------------------------------------------------------------------

func init() {
	sendHooks["C01"] = c01Send
	deliverHooks["C01"] = c01Deliver
	props["C01"] = &PropDef{
		ID: "C01", Level: "exploration",
		Gen:   genC01,
		Count: map[string]int{"quick": 150000, "thorough": 3000000},
		Rule: "scenario = one SA (suite stratified over the 9 encr x integ combinations, install mode direct/kdf) + 1..40 send steps from " +
			"the full encodable domain, each with its own random-source script (plain stream, short reads, adversarial IV/pad octets, " +
			"repeated stream), delivered in seeded order (reorder, duplicate) to a long-lived object, a fresh twin object or the sender's " +
			"own object, header pre-parsed or not; a third of sends use a nil key. Non-trivial = at least one non-empty payload list was " +
			"protected and decoded back; distinct = distinct abstract traces (op, suite, role, payload kinds, rx mode, outcome class).",
		Components: defaultComponents,
	}
}

// coverage probes: one counter per payload kind / EAP method that made the round trip
var kindProbe = map[string]string{}
var eapProbe = map[string]string{"": "probe_roundtrip_EAP_success_failure", "identity": "probe_roundtrip_EAP_identity", "notification": "probe_roundtrip_EAP_notification",
	"nak": "probe_roundtrip_EAP_nak", "expanded": "probe_roundtrip_EAP_expanded", "aka": "probe_roundtrip_EAP_aka_prime"}

func init() {
	for _, k := range allKinds {
		kindProbe[k] = "probe_roundtrip_payload_" + k
	}
}

func c01Send(c *sendCtx) {
	w, s := c.w, c.s
	switch c.res.class() {
	case "panic":
		w.violate("send_panic", panicKey(c.res), "EncodeEncrypt panicked: %s (msg %s)", c.res.Panic, jsonOf(s.Msg))
		return
	case "err":
		if c.res.RandSt.fired {
			return // the injected failure fired (and no retry was asked for): an error is the right answer
		}
		if c.sa != nil && s.Msg.innerSize() > maxInnerProtected(c.sa.Suite.refInteg().ICVLen)-256 {
			// C01's domain is "messages whose protected form still fits the 16-bit payload length"; padding may
			// legally be any amount up to 255 octets (C10), so within 256 octets of the limit a refusal is not a violation
			w.stats.inc("c01_refused_within_padding_slack_of_limit")
			return
		}
		w.violate("send_error", errKey(c.res.Err), "EncodeEncrypt refused a message of the encodable domain: %v (msg %s)", c.res.Err, jsonOf(s.Msg))
		return
	}
	if s.NilKey {
		// with no SA keys the entry point behaves as plain encode
		twin, err := s.Msg.build()
		if err != nil {
			return
		}
		var plain []byte
		var perr error
		r := &callResult{}
		guard(r, func() { plain, perr = twin.Encode() })
		if r.Panic != "" || perr != nil {
			return // plain encode's own failure is C03's business
		}
		if !bytes.Equal(plain, c.out) {
			w.violate("nilkey_not_plain_encode", "bytes", "EncodeEncrypt(m,nil) differs from m.Encode(): %x vs %x", c.out, plain)
		}
	}
}

func c01Deliver(c *deliverCtx) {
	w, d := c.w, c.d
	if c.faulty || c.toRole == d.From {
		return // C01 scenarios contain only benign transport faults
	}
	switch c.res.class() {
	case "panic":
		w.violate("deliver_panic", panicKey(c.res), "DecodeDecrypt panicked on a genuine message: %s (sent %s)", c.res.Panic, jsonOf(d.Spec))
		return
	case "err":
		w.violate("deliver_error", errKey(c.res.Err), "DecodeDecrypt refused a genuine message: %v (sent %s)", c.res.Err, jsonOf(d.Spec))
		return
	}
	got := extract(c.msg)
	if diff := specDiff(d.Spec, got); diff != "" {
		w.violate("roundtrip_mismatch", diff, "decoded message differs from the one sent at %s:\n sent %s\n got  %s", diff, jsonOf(d.Spec), jsonOf(got))
		return
	}
	if len(d.Spec.Payloads) > 0 && !d.NilKey {
		w.nontriv = true
	}
	// benign transport faults that actually happened
	seen, _ := w.ext["c01_seen"].(map[int]int)
	if seen == nil {
		seen = map[int]int{}
		w.ext["c01_seen"] = seen
	}
	if seen[c.s.Dgram] > 0 {
		w.stats.inc("fault_duplicate_delivery")
	}
	seen[c.s.Dgram]++
	if hi, _ := w.ext["c01_hi"].(int); c.s.Dgram < hi {
		w.stats.inc("fault_reordered_delivery")
	} else {
		w.ext["c01_hi"] = c.s.Dgram
	}
	if !d.NilKey {
		n := d.Spec.innerSize()
		switch n % 16 {
		case 15:
			w.stats.inc("probe_inner_mod16_eq_15_pad_len_0")
		case 0:
			w.stats.inc("probe_inner_mod16_eq_0_pad_len_15")
		}
		if n > 60000 {
			w.stats.inc("probe_near_16bit_limit")
		}
		if n == maxInnerProtected(c.sa.Suite.refInteg().ICVLen) {
			w.stats.inc("probe_exactly_max_protected_size")
		}
	}
	if len(d.Spec.Payloads) == 0 {
		w.stats.inc("probe_empty_payload_list")
	}
	for i := range d.Spec.Payloads {
		p := &d.Spec.Payloads[i]
		w.stats.inc(kindProbe[p.Kind])
		if p.Kind == "EAP" && p.EAP != nil {
			w.stats.inc(eapProbe[p.EAP.Kind])
		}
	}
	if c.key != nil && w.step%4 == 1 {
		// the caller edits the message it was given (builds its reply in place), then the identical datagram
		// arrives again (retransmission): it must decode to the original again, not to the caller's edits
		c.msg.Flags ^= 0x20
		c.msg.MessageID++
		if len(c.msg.Payloads) > 0 {
			c.msg.Payloads = c.msg.Payloads[:len(c.msg.Payloads)-1]
		}
		rx := RxOpts{}
		if c.s.Rx != nil {
			rx = *c.s.Rx
		}
		m2, r2 := unprotect(rxBuffer(c.wire, rx.Spare), c.key, c.toRole, rx.PreHdr, rx.Hdr28, rx.HdrOther)
		if r2.class() != "ok" {
			w.violate("redelivery_after_callers_edit_fails", r2.class(), "the identical genuine datagram is refused the second time (%s %v %s)", r2.class(), r2.Err, r2.Panic)
		} else if diff := specDiff(d.Spec, extract(m2)); diff != "" {
			w.violate("redelivery_returns_callers_edits", diff, "decoding the identical datagram again returns a message that reflects the caller's edits to the first result (at %s)", diff)
		}
		w.stats.inc("probe_redelivery_after_callers_edit")
	}
	if d.NilKey {
		// with no SA keys the entry point behaves as plain decode
		m2 := new(message.IKEMessage)
		var derr error
		r := &callResult{}
		guard(r, func() { derr = m2.Decode(rxBuffer(c.wire, 0)) })
		if r.Panic != "" || derr != nil {
			w.violate("nilkey_not_plain_decode", "outcome", "DecodeDecrypt(b,nil key) succeeded but Decode(b) did not: %v %s", derr, r.Panic)
			return
		}
		if diff := specDiff(extract(m2), got); diff != "" {
			w.violate("nilkey_not_plain_decode", diff, "DecodeDecrypt(b,nil key) and Decode(b) differ at %s", diff)
		}
	}
}

// adversarialRand draws a random-source script for one protect call.
func adversarialRand(r *Rng, prev *RandScript) *RandScript {
	sc := &RandScript{Seed: r.U64()}
	switch r.Intn(12) {
	case 0, 1: // short reads
		sc.Chunk = Pick(r, 1, 2, 3, 5, 7, 15, 16, 17)
	case 2: // all-zero IV and padding
		sc.PatReads, sc.PatByte = 2, 0x00
	case 3:
		sc.PatReads, sc.PatByte = 2, 0xff
	case 4: // pad octets that look like pad lengths
		sc.PatReads, sc.PatByte = Pick(r, 1, 2), Pick[uint8](r, 0x0f, 0x10, 0x01, 0x00)
	case 5: // same stream as the previous send: IV equal to the previous IV
		if prev != nil {
			*sc = *prev
		}
	case 6:
		sc.Prefix = r.Bytes(r.Range(1, 40))
		sc.Chunk = Pick(r, 0, 0, 4)
	}
	return sc
}

func genRx(r *Rng) *RxOpts {
	rx := &RxOpts{PreHdr: r.Bool()}
	rx.Hdr28 = rx.PreHdr && r.Chance(1, 4)
	rx.HdrOther = rx.PreHdr && r.Chance(1, 4)
	rx.WrongFirst = r.Chance(1, 6)
	if r.Chance(1, 2) {
		rx.Spare = Pick(r, 1, 16, 64, 512)
	}
	return rx
}

func genSAStep(r *Rng, id int, su Suite, modes ...string) Step {
	st := Step{Op: "sa", SA: id, Suite: &su, Mode: Pick(r, modes...)}
	switch st.Mode {
	case "direct":
		st.Keys = genRawKeys(r, su)
	case "kdf":
		st.Secret = r.Bytes(r.Range(1, 64))
		st.Nonce = r.Bytes(r.Range(1, 64))
		st.SpiI, st.SpiR = r.U64(), r.U64()
		if r.Chance(1, 3) {
			st.Mode, st.Nonce2 = "rekey", r.Bytes(r.Range(1, 64))
		}
	case "dh":
		st.Nonce = r.Bytes(r.Range(16, 32))
		st.Nonce2 = r.Bytes(r.Range(16, 32))
		st.SpiI, st.SpiR = r.U64(), r.U64()
		st.Rand = &RandScript{Seed: r.U64()}
		st.Rand2 = &RandScript{Seed: r.U64()}
	}
	return st
}

func genC01(r *Rng, idx int, tier string) *Scenario {
	sc := &Scenario{}
	su := suiteByIndex(idx)
	su.Prf = Pick(r, prfNames...)
	su.DH = 2
	mode := "direct"
	if r.Chance(1, 4) {
		mode = "kdf"
	}
	sc.Steps = append(sc.Steps, genSAStep(r, 0, su, mode))
	cfg := swarmGenCfg(r, maxInnerProtected(su.refInteg().ICVLen))
	n := Pick(r, 1, 2, 3, 5, 8, 12, 20, 40)
	if cfg.SizeClass == 2 {
		n = Pick(r, 1, 2, 3)
	}
	// stratified: direction and header mode of the first message
	firstFrom := Pick(r, "I", "R")
	if (idx/9)%2 == 0 {
		firstFrom = "I"
	} else {
		firstFrom = "R"
	}
	firstPre := (idx/18)%2 == 0
	var prev *RandScript
	var pending []int
	nilRate := Pick(r, 0, 3, 3, 3, 8)
	flush := func(all bool) {
		for len(pending) > 0 && (all || r.Chance(1, 2)) {
			k := r.Intn(len(pending))
			id := pending[k]
			st := Step{Op: "deliver", Dgram: id, Rx: genRx(r), Obj: Pick(r, "long", "long", "twin", "peer")}
			if id == 0 {
				st.Rx.PreHdr = firstPre
			}
			sc.Steps = append(sc.Steps, st)
			if r.Chance(1, 10) { // duplicate: keep it in flight
				continue
			}
			pending = append(pending[:k], pending[k+1:]...)
		}
	}
	for i := 0; i < n; i++ {
		st := Step{Op: "send", SA: 0, Dgram: i, From: Pick(r, "I", "R"), Msg: genMsg(r, &cfg)}
		if i == 0 {
			st.From = firstFrom
		}
		if nilRate > 0 && r.Intn(nilRate) == 0 && i > 0 {
			st.NilKey = true
		}
		st.Obj = Pick(r, "long", "long", "long", "twin")
		st.Rand = adversarialRand(r, prev)
		prev = st.Rand
		if !st.NilKey && r.Chance(1, 16) {
			// the random source fails somewhere during this protect call; the sender retries on the same message
			st.Rand = &RandScript{Seed: r.U64(), FailAt: r.Range(1, 2), FailMode: Pick(r, "err", "eof", "partial"), Chunk: Pick(r, 0, 0, 4)}
			if st.Rand.Chunk > 0 {
				st.Rand.FailAt = r.Range(1, 8)
			}
			st.Retry = true
		}
		sc.Steps = append(sc.Steps, st)
		pending = append(pending, i)
		flush(false)
	}
	flush(true)
	return sc
}
