package main

import (
	"encoding/hex"
	"fmt"
	"os"

	"ikesim/ref"
)

func usage() int {
	fmt.Fprintln(os.Stderr, `usage:
  ikesim run <Cxx> <quick|thorough>
  ikesim replay <file>
  ikesim selftest
  ikesim gen <Cxx> <tier> <index>      print one generated scenario`)
	return 2
}

func main() {
	if len(os.Args) < 2 {
		os.Exit(usage())
	}
	switch os.Args[1] {
	case "run":
		if len(os.Args) < 4 {
			os.Exit(usage())
		}
		os.Exit(runMain(os.Args[2], os.Args[3]))
	case "worker":
		os.Exit(workerMain(os.Args[2:]))
	case "replay":
		if len(os.Args) < 3 {
			os.Exit(usage())
		}
		os.Exit(replayMain(os.Args[2]))
	case "dethash":
		// dethash <Cxx> <tier> <seed> <lo> <hi>: one line per scenario with the hash of its full event log
		if len(os.Args) < 7 {
			os.Exit(usage())
		}
		var seed uint64
		var lo, hi int
		fmt.Sscan(os.Args[4], &seed)
		fmt.Sscan(os.Args[5], &lo)
		fmt.Sscan(os.Args[6], &hi)
		installSimRand()
		for i := lo; i < hi; i++ {
			res := runScenario(genScenario(props[os.Args[2]], seed, i, os.Args[3]))
			fmt.Printf("%s seed=%d index=%d log=%016x abs=%016x events=%d viol=%d\n", os.Args[2], seed, i, traceHash(res), res.Abs, res.Events, len(res.Viol))
		}
	case "seqcheck":
		os.Exit(seqcheckMain(os.Args[2:]))
	case "report":
		os.Exit(reportMain(os.Args[2:]))
	case "selftest":
		os.Exit(selftestMain(os.Args[2:]))
	case "gen":
		if len(os.Args) < 5 {
			os.Exit(usage())
		}
		var idx int
		fmt.Sscan(os.Args[4], &idx)
		sc := genScenario(props[os.Args[2]], envSeed(), idx, os.Args[3])
		fmt.Println(string(sc.json()))
	default:
		os.Exit(usage())
	}
}

func unhex(s string) []byte {
	b, err := hex.DecodeString(s)
	if err != nil {
		panic(err)
	}
	return b
}

// selfTestRef validates the reference peer against RFC vectors and against the
// vectors pinned in the repository's own tests (security_test.go:
// TestGenerateKeyForIKESA, TestGenerateKeyForChildSA).
func selfTestRef() error {
	if err := ref.SelfTest(); err != nil {
		return err
	}
	k := ref.DeriveIKE(ref.PrfSHA1, ref.IntegSHA1, 32, []byte{1, 2, 3, 4}, []byte{5, 6, 7, 8}, 0x456, 0x123)
	want := map[string][]byte{
		"58a17edd463b4b5062359c1c98b1736d80219691":                         k.SKai,
		"eb2e18e9a8f9643ea0d0107a28cf5947ecd1597e":                         k.SKar,
		"3dcbcbb2d71d1806d5e5356a5600727eb482101de1868ae9cf71c4117d22cddb": k.SKei,
		"ba3b43cf173435c449f3098c01944f2d9a66c2ca1d967f06a69f36e945a4754b": k.SKer,
		"aff4def6c9113c6942f31fa2d8b74f6c054e0e73":                         k.SKpi,
		"c06bd0c0dd3e0b3f9c5b4cbe35c88fdd3948430f":                         k.SKpr,
		"276e1a8f0d65dae5309da66277ff7c82d39a8956":                         k.SKd,
	}
	for w, g := range want {
		if hex.EncodeToString(g) != w {
			return fmt.Errorf("reference KDF disagrees with the vector pinned in security_test.go: got %x want %s", g, w)
		}
	}
	return nil
}
