// astyield rewrites a scratch copy of the repository so that every statement
// of every function body (function literals excepted) is preceded by a call to
// simyield.Y(site): the statement-level yield points of the C18 scheduler.
// The shipped code in /repo is never touched.
package main

import (
	"fmt"
	"go/ast"
	"go/format"
	"go/parser"
	"go/token"
	"os"
	"path/filepath"
	"sort"
	"strconv"
	"strings"
)

const yieldPkg = `// Package simyield exists only in the instrumented scratch copy.
package simyield

// Hook is installed by the simulator; nil means "not simulating".
var Hook func(site int)

func Y(site int) {
	if Hook != nil {
		Hook(site)
	}
}
`

var site int

func yieldStmt() ast.Stmt {
	site++
	return &ast.ExprStmt{X: &ast.CallExpr{
		Fun:  &ast.SelectorExpr{X: ast.NewIdent("simyield"), Sel: ast.NewIdent("Y")},
		Args: []ast.Expr{&ast.BasicLit{Kind: token.INT, Value: strconv.Itoa(site)}},
	}}
}

func instrumentList(list []ast.Stmt) []ast.Stmt {
	out := make([]ast.Stmt, 0, 2*len(list))
	for _, s := range list {
		instrumentStmt(s)
		out = append(out, yieldStmt(), s)
	}
	return out
}

func instrumentBlock(b *ast.BlockStmt) {
	if b != nil {
		b.List = instrumentList(b.List)
	}
}

func instrumentStmt(s ast.Stmt) {
	switch v := s.(type) {
	case *ast.BlockStmt:
		instrumentBlock(v)
	case *ast.IfStmt:
		instrumentBlock(v.Body)
		if v.Else != nil {
			instrumentStmt(v.Else)
		}
	case *ast.ForStmt:
		instrumentBlock(v.Body)
	case *ast.RangeStmt:
		instrumentBlock(v.Body)
	case *ast.SwitchStmt:
		for _, c := range v.Body.List {
			cc := c.(*ast.CaseClause)
			cc.Body = instrumentList(cc.Body)
		}
	case *ast.TypeSwitchStmt:
		for _, c := range v.Body.List {
			cc := c.(*ast.CaseClause)
			cc.Body = instrumentList(cc.Body)
		}
	case *ast.SelectStmt:
		for _, c := range v.Body.List {
			cc := c.(*ast.CommClause)
			cc.Body = instrumentList(cc.Body)
		}
	case *ast.LabeledStmt:
		instrumentStmt(v.Stmt)
	}
	// function literals inside expressions are deliberately left alone
}

func main() {
	if len(os.Args) != 2 {
		fmt.Fprintln(os.Stderr, "usage: astyield <repo copy>")
		os.Exit(2)
	}
	root := os.Args[1]
	var files []string
	err := filepath.Walk(root, func(p string, info os.FileInfo, err error) error {
		if err != nil {
			return err
		}
		if info.IsDir() {
			if info.Name() == ".git" || info.Name() == "simyield" {
				return filepath.SkipDir
			}
			return nil
		}
		if strings.HasSuffix(p, ".go") && !strings.HasSuffix(p, "_test.go") {
			files = append(files, p)
		}
		return nil
	})
	if err != nil {
		fmt.Fprintln(os.Stderr, err)
		os.Exit(2)
	}
	sort.Strings(files)
	nfiles := 0
	for _, p := range files {
		fset := token.NewFileSet()
		f, err := parser.ParseFile(fset, p, nil, parser.ParseComments)
		if err != nil {
			fmt.Fprintln(os.Stderr, err)
			os.Exit(2)
		}
		before := site
		for _, d := range f.Decls {
			if fd, ok := d.(*ast.FuncDecl); ok && fd.Body != nil {
				instrumentBlock(fd.Body)
			}
		}
		if site == before {
			continue
		}
		// add the import
		imp := &ast.GenDecl{Tok: token.IMPORT, Specs: []ast.Spec{
			&ast.ImportSpec{Path: &ast.BasicLit{Kind: token.STRING, Value: `"github.com/free5gc/ike/simyield"`}},
		}}
		f.Decls = append([]ast.Decl{imp}, f.Decls...)
		// comments would be misplaced by the inserted nodes; drop them (scratch copy)
		f.Comments = nil
		out, err := os.Create(p)
		if err != nil {
			fmt.Fprintln(os.Stderr, err)
			os.Exit(2)
		}
		if err := format.Node(out, token.NewFileSet(), f); err != nil {
			fmt.Fprintln(os.Stderr, p, err)
			os.Exit(2)
		}
		out.Close()
		nfiles++
	}
	if err := os.MkdirAll(filepath.Join(root, "simyield"), 0o755); err != nil {
		fmt.Fprintln(os.Stderr, err)
		os.Exit(2)
	}
	if err := os.WriteFile(filepath.Join(root, "simyield", "simyield.go"), []byte(yieldPkg), 0o644); err != nil {
		fmt.Fprintln(os.Stderr, err)
		os.Exit(2)
	}
	fmt.Printf("instrumented %d files\n%d\n", nfiles, site)
}
