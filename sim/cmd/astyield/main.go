// astyield rewrites a scratch copy of the repository so that every statement
// of every function body (function literals excepted) is preceded by a call to
// simyield.Y(site): the statement-level yield points of the C18 scheduler.
// Lock()/RLock()/Unlock()/RUnlock() statements, deferred unlocks and Once-style Do(f)
// calls are bracketed by simyield.L(+1/-1), so that the scheduler knows when the running
// task is inside a critical section and never parks it there (a parked lock holder would
// block the next task for real, which the simulator could not tell from a deadlock).
// The shipped code in /repo is never touched.
package main

import (
	"fmt"
	"go/ast"
	"go/format"
	"go/parser"
	"go/token"
	"os"
	"path/filepath"
	"sort"
	"strconv"
	"strings"
)

const yieldPkg = `// Package simyield exists only in the instrumented scratch copy.
package simyield

// Hook is installed by the simulator; nil means "not simulating".
var Hook func(site int)

func Y(site int) {
	if Hook != nil {
		Hook(site)
	}
}

// LockHook is told when the calling goroutine enters (+1) or leaves (-1) a critical section.
var LockHook func(delta int)

func L(delta int) {
	if LockHook != nil {
		LockHook(delta)
	}
}
`

var site int

func yieldStmt() ast.Stmt {
	site++
	return &ast.ExprStmt{X: &ast.CallExpr{
		Fun:  &ast.SelectorExpr{X: ast.NewIdent("simyield"), Sel: ast.NewIdent("Y")},
		Args: []ast.Expr{&ast.BasicLit{Kind: token.INT, Value: strconv.Itoa(site)}},
	}}
}

var lockSites int

func lockStmt(delta int, deferred bool) ast.Stmt {
	lockSites++
	v := strconv.Itoa(delta)
	call := &ast.CallExpr{
		Fun:  &ast.SelectorExpr{X: ast.NewIdent("simyield"), Sel: ast.NewIdent("L")},
		Args: []ast.Expr{&ast.BasicLit{Kind: token.INT, Value: v}},
	}
	if deferred {
		return &ast.DeferStmt{Call: call}
	}
	return &ast.ExprStmt{X: call}
}

// lockKind classifies a call: +1 acquire, -1 release, 2 = Do(f) (held for the duration of the call), 0 other.
func lockKind(c *ast.CallExpr) int {
	sel, ok := c.Fun.(*ast.SelectorExpr)
	if !ok {
		return 0
	}
	switch sel.Sel.Name {
	case "Lock", "RLock":
		if len(c.Args) == 0 {
			return 1
		}
	case "Unlock", "RUnlock":
		if len(c.Args) == 0 {
			return -1
		}
	case "Do":
		if len(c.Args) == 1 {
			return 2
		}
	}
	return 0
}

// withLocks returns the statements that replace s (s itself plus the bracketing L calls).
func withLocks(s ast.Stmt) []ast.Stmt {
	switch v := s.(type) {
	case *ast.ExprStmt:
		if c, ok := v.X.(*ast.CallExpr); ok {
			switch lockKind(c) {
			case 1:
				return []ast.Stmt{lockStmt(1, false), s}
			case -1:
				return []ast.Stmt{s, lockStmt(-1, false)}
			case 2:
				return []ast.Stmt{lockStmt(1, false), s, lockStmt(-1, false)}
			}
		}
	case *ast.DeferStmt:
		if lockKind(v.Call) == -1 {
			// deferred calls run last-in-first-out: this one runs right after the deferred unlock
			return []ast.Stmt{lockStmt(-1, true), s}
		}
	}
	return []ast.Stmt{s}
}

var inFuncLit bool

func instrumentList(list []ast.Stmt) []ast.Stmt {
	out := make([]ast.Stmt, 0, 2*len(list))
	for _, s := range list {
		instrumentStmt(s)
		if !inFuncLit {
			out = append(out, yieldStmt())
		}
		out = append(out, withLocks(s)...)
	}
	return out
}

// instrumentFuncLits: function literals get no yield points (as before), but their lock operations are tracked.
func instrumentFuncLits(body *ast.BlockStmt) {
	var lits []*ast.FuncLit
	ast.Inspect(body, func(n ast.Node) bool {
		if fl, ok := n.(*ast.FuncLit); ok {
			lits = append(lits, fl)
		}
		return true
	})
	inFuncLit = true
	for _, fl := range lits {
		instrumentBlock(fl.Body)
	}
	inFuncLit = false
}

func instrumentBlock(b *ast.BlockStmt) {
	if b != nil {
		b.List = instrumentList(b.List)
	}
}

func instrumentStmt(s ast.Stmt) {
	switch v := s.(type) {
	case *ast.BlockStmt:
		instrumentBlock(v)
	case *ast.IfStmt:
		instrumentBlock(v.Body)
		if v.Else != nil {
			instrumentStmt(v.Else)
		}
	case *ast.ForStmt:
		instrumentBlock(v.Body)
	case *ast.RangeStmt:
		instrumentBlock(v.Body)
	case *ast.SwitchStmt:
		for _, c := range v.Body.List {
			cc := c.(*ast.CaseClause)
			cc.Body = instrumentList(cc.Body)
		}
	case *ast.TypeSwitchStmt:
		for _, c := range v.Body.List {
			cc := c.(*ast.CaseClause)
			cc.Body = instrumentList(cc.Body)
		}
	case *ast.SelectStmt:
		for _, c := range v.Body.List {
			cc := c.(*ast.CommClause)
			cc.Body = instrumentList(cc.Body)
		}
	case *ast.LabeledStmt:
		instrumentStmt(v.Stmt)
	}
	// function literals inside expressions are deliberately left alone
}

func main() {
	if len(os.Args) != 2 {
		fmt.Fprintln(os.Stderr, "usage: astyield <repo copy>")
		os.Exit(2)
	}
	root := os.Args[1]
	var files []string
	err := filepath.Walk(root, func(p string, info os.FileInfo, err error) error {
		if err != nil {
			return err
		}
		if info.IsDir() {
			if info.Name() == ".git" || info.Name() == "simyield" {
				return filepath.SkipDir
			}
			return nil
		}
		if strings.HasSuffix(p, ".go") && !strings.HasSuffix(p, "_test.go") {
			files = append(files, p)
		}
		return nil
	})
	if err != nil {
		fmt.Fprintln(os.Stderr, err)
		os.Exit(2)
	}
	sort.Strings(files)
	nfiles := 0
	for _, p := range files {
		fset := token.NewFileSet()
		f, err := parser.ParseFile(fset, p, nil, parser.ParseComments)
		if err != nil {
			fmt.Fprintln(os.Stderr, err)
			os.Exit(2)
		}
		before, beforeLocks := site, lockSites
		for _, d := range f.Decls {
			if fd, ok := d.(*ast.FuncDecl); ok && fd.Body != nil {
				instrumentFuncLits(fd.Body)
				instrumentBlock(fd.Body)
			}
		}
		if site == before && lockSites == beforeLocks {
			continue
		}
		// add the import
		imp := &ast.GenDecl{Tok: token.IMPORT, Specs: []ast.Spec{
			&ast.ImportSpec{Path: &ast.BasicLit{Kind: token.STRING, Value: `"github.com/free5gc/ike/simyield"`}},
		}}
		f.Decls = append([]ast.Decl{imp}, f.Decls...)
		// comments would be misplaced by the inserted nodes; drop them (scratch copy)
		f.Comments = nil
		out, err := os.Create(p)
		if err != nil {
			fmt.Fprintln(os.Stderr, err)
			os.Exit(2)
		}
		if err := format.Node(out, token.NewFileSet(), f); err != nil {
			fmt.Fprintln(os.Stderr, p, err)
			os.Exit(2)
		}
		out.Close()
		nfiles++
	}
	if err := os.MkdirAll(filepath.Join(root, "simyield"), 0o755); err != nil {
		fmt.Fprintln(os.Stderr, err)
		os.Exit(2)
	}
	if err := os.WriteFile(filepath.Join(root, "simyield", "simyield.go"), []byte(yieldPkg), 0o644); err != nil {
		fmt.Fprintln(os.Stderr, err)
		os.Exit(2)
	}
	fmt.Printf("instrumented %d files\n%d\n", nfiles, site)
}
