package main

import "fmt"

// selftestMain: reference self-test (RFC vectors, primality of the computed
// MODP primes, vectors pinned in the repository's tests).
func selftestMain(args []string) int {
	if err := selfTestRef(); err != nil {
		fmt.Println("selftest FAILED:", err)
		return 2
	}
	fmt.Println("selftest ok: reference peer agrees with RFC 2202/4231/3602 vectors, MODP primes are safe primes, KDF matches the repository's pinned vector")
	return 0
}
