package main

import (
	"bytes"
	"fmt"
	"hash/crc32"
)

// selftestMain: reference self-test (RFC vectors, primality of the computed
// MODP primes, vectors pinned in the repository's tests).
func selftestMain(args []string) int {
	if err := selfTestRef(); err != nil {
		fmt.Println("selftest FAILED:", err)
		return 2
	}
	if err := selfTestChecksumFaults(); err != nil {
		fmt.Println("selftest FAILED:", err)
		return 2
	}
	fmt.Println("selftest ok: reference peer agrees with RFC 2202/4231/3602 vectors, MODP primes are safe primes, KDF matches the repository's pinned vector")
	return 0
}

// selfTestChecksumFaults: the ckpreserve fault really keeps the checksums it claims to keep, and really changes the octets.
func selfTestChecksumFaults() error {
	r := NewRng(77)
	cast := crc32.MakeTable(crc32.Castagnoli)
	for i := 0; i < 2000; i++ {
		d := r.Bytes(r.Range(40, 200))
		f := genChecksumPreserving(r, len(d))
		e := clone(d)
		if !checksumPreservingEdit(e, f.Val, f.Off, f.Len, f.Bit) {
			continue
		}
		if bytes.Equal(d, e) {
			return fmt.Errorf("ckpreserve variant %d left the datagram unchanged", f.Val)
		}
		sum := func(b []byte) (s, x int) {
			for _, c := range b {
				s += int(c)
				x ^= int(c)
			}
			return
		}
		s1, x1 := sum(d)
		s2, x2 := sum(e)
		switch f.Val {
		case 0:
			if crc32.ChecksumIEEE(d) != crc32.ChecksumIEEE(e) {
				return fmt.Errorf("ckpreserve variant 0 changed the IEEE CRC-32")
			}
		case 1:
			if crc32.Checksum(d, cast) != crc32.Checksum(e, cast) {
				return fmt.Errorf("ckpreserve variant 1 changed the Castagnoli CRC-32")
			}
		case 4, 5:
			if s1 != s2 {
				return fmt.Errorf("ckpreserve variant %d changed the octet sum", f.Val)
			}
		case 6:
			if x1 != x2 {
				return fmt.Errorf("ckpreserve variant 6 changed the xor of the octets")
			}
		}
	}
	return nil
}
