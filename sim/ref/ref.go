// Package ref is the independent reference peer: written from the RFCs, sharing
// no code and no constants with github.com/free5gc/ike.
//
//	RFC 7296 §2.13 prf+, §2.14 SKEYSEED / SK_*, §2.17 Child SA keys, §3.14 SK payload
//	RFC 2403/2404/4868 HMAC-MD5-96, HMAC-SHA1-96, HMAC-SHA-256-128
//	RFC 3602 AES-CBC; RFC 2409 §6.2 / RFC 3526 §3 MODP groups 2 and 14
package ref

import (
	"crypto/aes"
	"crypto/hmac"
	"crypto/md5"
	"crypto/sha1"
	"crypto/sha256"
	"encoding/binary"
	"errors"
	"fmt"
	"hash"
	"math/big"
)

// ---------------------------------------------------------------------------
// algorithm tables (from the RFCs; IANA transform ids)
// ---------------------------------------------------------------------------

type Prf struct {
	ID     uint16
	Name   string
	New    func() hash.Hash
	KeyLen int // preferred key length = output length
}

type Integ struct {
	ID     uint16
	Name   string
	New    func() hash.Hash
	KeyLen int
	ICVLen int
}

var (
	PrfMD5    = Prf{1, "prf_md5", md5.New, 16}
	PrfSHA1   = Prf{2, "prf_sha1", sha1.New, 20}
	PrfSHA256 = Prf{5, "prf_sha256", sha256.New, 32}
	Prfs      = []Prf{PrfMD5, PrfSHA1, PrfSHA256}

	IntegMD5    = Integ{1, "md5_96", md5.New, 16, 12}
	IntegSHA1   = Integ{2, "sha1_96", sha1.New, 20, 12}
	IntegSHA256 = Integ{12, "sha256_128", sha256.New, 32, 16}
	Integs      = []Integ{IntegMD5, IntegSHA1, IntegSHA256}

	AESKeyLens = []int{16, 24, 32}
)

func (p Prf) Sum(key []byte, data ...[]byte) []byte {
	h := hmac.New(p.New, key)
	for _, d := range data {
		h.Write(d)
	}
	return h.Sum(nil)
}

func (i Integ) ICV(key []byte, data []byte) []byte {
	h := hmac.New(i.New, key)
	h.Write(data)
	return h.Sum(nil)[:i.ICVLen]
}

// PrfPlus: T1 = prf(K, S|0x01), Tn = prf(K, Tn-1|S|n)
func PrfPlus(p Prf, key, seed []byte, n int) []byte {
	var out, t []byte
	for i := 1; len(out) < n; i++ {
		t = p.Sum(key, t, seed, []byte{byte(i)})
		out = append(out, t...)
	}
	return out[:n]
}

// IKEKeys are the seven keys of RFC 7296 §2.14.
type IKEKeys struct {
	SKd, SKai, SKar, SKei, SKer, SKpi, SKpr []byte
	SKEYSEED                                []byte
}

// DeriveIKE computes SKEYSEED = prf(Ni|Nr, g^ir) and the SK_* slices.
func DeriveIKE(p Prf, ig Integ, encKeyLen int, nonces, shared []byte, spiI, spiR uint64) IKEKeys {
	var k IKEKeys
	k.SKEYSEED = p.Sum(nonces, shared)
	seed := append([]byte{}, nonces...)
	seed = binary.BigEndian.AppendUint64(seed, spiI)
	seed = binary.BigEndian.AppendUint64(seed, spiR)
	total := 3*p.KeyLen + 2*ig.KeyLen + 2*encKeyLen
	s := PrfPlus(p, k.SKEYSEED, seed, total)
	take := func(n int) []byte { r := s[:n:n]; s = s[n:]; return r }
	k.SKd = take(p.KeyLen)
	k.SKai = take(ig.KeyLen)
	k.SKar = take(ig.KeyLen)
	k.SKei = take(encKeyLen)
	k.SKer = take(encKeyLen)
	k.SKpi = take(p.KeyLen)
	k.SKpr = take(p.KeyLen)
	return k
}

// ChildKeys: KEYMAT = prf+(SK_d, Ni|Nr), order ei, ai, er, ar (RFC 7296 §2.17).
type ChildKeys struct{ Ei, Ai, Er, Ar []byte }

func DeriveChild(p Prf, skd, nonces []byte, encLen, integLen int) ChildKeys {
	s := PrfPlus(p, skd, nonces, 2*(encLen+integLen))
	take := func(n int) []byte { r := s[:n:n]; s = s[n:]; return r }
	return ChildKeys{Ei: take(encLen), Ai: take(integLen), Er: take(encLen), Ar: take(integLen)}
}

// ---------------------------------------------------------------------------
// AES-CBC by hand over crypto/aes block calls
// ---------------------------------------------------------------------------

func CBCEncrypt(key, iv, pt []byte) ([]byte, error) {
	if len(pt)%16 != 0 || len(iv) != 16 {
		return nil, errors.New("ref: cbc encrypt: bad sizes")
	}
	b, err := aes.NewCipher(key)
	if err != nil {
		return nil, err
	}
	out := make([]byte, len(pt))
	prev := iv
	for i := 0; i < len(pt); i += 16 {
		var x [16]byte
		for j := 0; j < 16; j++ {
			x[j] = pt[i+j] ^ prev[j]
		}
		b.Encrypt(out[i:i+16], x[:])
		prev = out[i : i+16]
	}
	return out, nil
}

func CBCDecrypt(key, iv, ct []byte) ([]byte, error) {
	if len(ct)%16 != 0 || len(iv) != 16 {
		return nil, errors.New("ref: cbc decrypt: bad sizes")
	}
	b, err := aes.NewCipher(key)
	if err != nil {
		return nil, err
	}
	out := make([]byte, len(ct))
	prev := iv
	for i := 0; i < len(ct); i += 16 {
		var x [16]byte
		b.Decrypt(x[:], ct[i:i+16])
		for j := 0; j < 16; j++ {
			out[i+j] = x[j] ^ prev[j]
		}
		prev = ct[i : i+16]
	}
	return out, nil
}

// ---------------------------------------------------------------------------
// SK payload (RFC 7296 §3.14)
// ---------------------------------------------------------------------------

// Header is the fixed IKE header as the reference reads it.
type Header struct {
	SPIi, SPIr   uint64
	NextPayload  uint8
	Major, Minor uint8
	Exchange     uint8
	Flags        uint8
	MessageID    uint32
	Length       uint32
}

func ParseHeader(d []byte) (Header, error) {
	var h Header
	if len(d) < 28 {
		return h, errors.New("ref: datagram shorter than an IKE header")
	}
	h.SPIi = binary.BigEndian.Uint64(d[0:])
	h.SPIr = binary.BigEndian.Uint64(d[8:])
	h.NextPayload = d[16]
	h.Major, h.Minor = d[17]>>4, d[17]&15
	h.Exchange, h.Flags = d[18], d[19]
	h.MessageID = binary.BigEndian.Uint32(d[20:])
	h.Length = binary.BigEndian.Uint32(d[24:])
	return h, nil
}

func (h Header) Bytes(nextPayload uint8, total int) []byte {
	b := make([]byte, 28)
	binary.BigEndian.PutUint64(b[0:], h.SPIi)
	binary.BigEndian.PutUint64(b[8:], h.SPIr)
	b[16] = nextPayload
	b[17] = h.Major<<4 | h.Minor&15
	b[18], b[19] = h.Exchange, h.Flags
	binary.BigEndian.PutUint32(b[20:], h.MessageID)
	binary.BigEndian.PutUint32(b[24:], uint32(total))
	return b
}

// Protect builds header | SK{ IV | CBC(inner|pad|padlen) | ICV }.
// firstInner is the type of the first inner payload (0 when inner is empty);
// pad are the pad octets (any length p with (len(inner)+p+1)%16 == 0, p<=255).
func Protect(h Header, firstInner uint8, inner, iv, pad []byte, encKey []byte, ig Integ, integKey []byte) ([]byte, error) {
	if (len(inner)+len(pad)+1)%16 != 0 || len(pad) > 255 {
		return nil, fmt.Errorf("ref: illegal pad length %d for %d inner octets", len(pad), len(inner))
	}
	pt := append(append(append([]byte{}, inner...), pad...), byte(len(pad)))
	ct, err := CBCEncrypt(encKey, iv, pt)
	if err != nil {
		return nil, err
	}
	skLen := 4 + 16 + len(ct) + ig.ICVLen
	if skLen > 65535 {
		return nil, errors.New("ref: SK payload exceeds 16-bit length")
	}
	total := 28 + skLen
	d := h.Bytes(46, total)
	d = append(d, firstInner, 0, byte(skLen>>8), byte(skLen))
	d = append(d, iv...)
	d = append(d, ct...)
	d = append(d, ig.ICV(integKey, d)...)
	return d, nil
}

// SKParts is what the reference peer finds in a protected datagram.
type SKParts struct {
	Header     Header
	FirstInner uint8
	IV         []byte
	Plain      []byte // inner | pad | padlen
	Inner      []byte
	PadLen     int
}

// Unprotect verifies the exact §3.14 layout: header names SK, one SK payload
// spanning the rest, both length fields final, ICV over everything before it
// under integKey, CBC under encKey, pad length octet.
func Unprotect(d []byte, encKey []byte, ig Integ, integKey []byte) (*SKParts, error) {
	h, err := ParseHeader(d)
	if err != nil {
		return nil, err
	}
	if int(h.Length) != len(d) {
		return nil, fmt.Errorf("ref: header length %d != datagram size %d", h.Length, len(d))
	}
	if h.NextPayload != 46 {
		return nil, fmt.Errorf("ref: header names payload %d, not 46 (SK)", h.NextPayload)
	}
	if len(d) < 32 {
		return nil, errors.New("ref: no room for a generic payload header")
	}
	skLen := int(binary.BigEndian.Uint16(d[30:32]))
	if skLen != len(d)-28 {
		return nil, fmt.Errorf("ref: SK payload length %d != datagram size - 28 = %d", skLen, len(d)-28)
	}
	body := d[32:]
	if len(body) < 16+16+ig.ICVLen {
		return nil, fmt.Errorf("ref: SK body of %d octets too short for IV + one block + ICV", len(body))
	}
	icv := body[len(body)-ig.ICVLen:]
	want := ig.ICV(integKey, d[:len(d)-ig.ICVLen])
	if !hmac.Equal(icv, want) {
		return nil, errors.New("ref: ICV does not verify under the sender-direction integrity key over header..ciphertext")
	}
	iv := body[:16]
	ct := body[16 : len(body)-ig.ICVLen]
	if len(ct)%16 != 0 {
		return nil, fmt.Errorf("ref: ciphertext length %d not a block multiple", len(ct))
	}
	pt, err := CBCDecrypt(encKey, iv, ct)
	if err != nil {
		return nil, err
	}
	pl := int(pt[len(pt)-1])
	if pl+1 > len(pt) {
		return nil, fmt.Errorf("ref: pad length %d exceeds plaintext %d", pl, len(pt))
	}
	return &SKParts{Header: h, FirstInner: d[28], IV: iv, Plain: pt, Inner: pt[:len(pt)-pl-1], PadLen: pl}, nil
}

// ---------------------------------------------------------------------------
// generic payload chain walker
// ---------------------------------------------------------------------------

type RawPayload struct {
	Type     uint8
	Critical bool
	Body     []byte
}

// WalkChain follows next-payload/length fields. It does not interpret bodies.
func WalkChain(first uint8, b []byte) ([]RawPayload, error) {
	var out []RawPayload
	t := first
	for len(b) > 0 {
		if t == 0 {
			return out, fmt.Errorf("ref: %d octets remain after the chain ended", len(b))
		}
		if len(b) < 4 {
			return out, errors.New("ref: truncated generic payload header")
		}
		l := int(binary.BigEndian.Uint16(b[2:4]))
		if l < 4 || l > len(b) {
			return out, fmt.Errorf("ref: payload length %d outside [4,%d]", l, len(b))
		}
		out = append(out, RawPayload{Type: t, Critical: b[1]&0x80 != 0, Body: b[4:l]})
		t = b[0]
		b = b[l:]
	}
	if t != 0 {
		return out, fmt.Errorf("ref: chain ends with next payload %d, not 0", t)
	}
	return out, nil
}

// Supported payload types of RFC 7296 that a minimal implementation handles
// (33..48). Anything else is "unsupported" and skipped when not critical.
func Supported(t uint8) bool { return t >= 33 && t <= 48 }

// PresentsSK decides, for an arbitrary datagram, whether a receiver following
// RFC 7296 §2.5/§3.2 would find an Encrypted payload as the first payload it
// has to process: the header names 46, or every payload before the first 46 is
// unsupported and not critical. Returns false when the chain cannot be walked
// that far.
func PresentsSK(d []byte) bool {
	if len(d) < 28 {
		return false
	}
	t := d[16]
	b := d[28:]
	for {
		if t == 46 {
			return true
		}
		if Supported(t) || t == 0 {
			return false
		}
		// unsupported: skippable only if well-formed and not critical
		if len(b) < 4 {
			return false
		}
		l := int(binary.BigEndian.Uint16(b[2:4]))
		if l < 4 || l > len(b) || b[1]&0x80 != 0 {
			return false
		}
		t = b[0]
		b = b[l:]
	}
}

// HeaderNamesSK: the first-payload field of the header is 46.
func HeaderNamesSK(d []byte) bool { return len(d) >= 28 && d[16] == 46 }

// ---------------------------------------------------------------------------
// MODP groups 2 and 14: primes computed from the RFC formulas, with pi from
// Machin's formula. p = 2^n - 2^(n-64) - 1 + 2^64 * ( floor(2^(n-130) pi) + c )
// ---------------------------------------------------------------------------

type Group struct {
	ID  uint16
	P   *big.Int
	G   *big.Int
	Len int
}

var (
	Group2  *Group
	Group14 *Group
)

func arctanInv(x int64, prec uint) *big.Int {
	// arctan(1/x) * 2^prec
	one := new(big.Int).Lsh(big.NewInt(1), prec)
	bx := big.NewInt(x)
	x2 := big.NewInt(x * x)
	term := new(big.Int).Div(one, bx)
	sum := new(big.Int).Set(term)
	for k := int64(1); term.Sign() != 0; k++ {
		term.Div(term, x2)
		t := new(big.Int).Div(term, big.NewInt(2*k+1))
		if k%2 == 1 {
			sum.Sub(sum, t)
		} else {
			sum.Add(sum, t)
		}
	}
	return sum
}

func piTimes2(n uint) *big.Int {
	// floor(pi * 2^n), computed with guard bits
	prec := n + 128
	a := arctanInv(5, prec)
	b := arctanInv(239, prec)
	pi := new(big.Int).Mul(a, big.NewInt(16))
	pi.Sub(pi, new(big.Int).Mul(b, big.NewInt(4)))
	return pi.Rsh(pi, 128)
}

func modpPrime(n uint, c int64) *big.Int {
	p := new(big.Int).Lsh(big.NewInt(1), n)
	p.Sub(p, new(big.Int).Lsh(big.NewInt(1), n-64))
	p.Sub(p, big.NewInt(1))
	t := piTimes2(n - 130)
	t.Add(t, big.NewInt(c))
	t.Lsh(t, 64)
	return p.Add(p, t)
}

func init() {
	Group2 = &Group{ID: 2, P: modpPrime(1024, 129093), G: big.NewInt(2), Len: 128}
	Group14 = &Group{ID: 14, P: modpPrime(2048, 124476), G: big.NewInt(2), Len: 256}
}

func GroupByID(id uint16) *Group {
	switch id {
	case 2:
		return Group2
	case 14:
		return Group14
	}
	return nil
}

func (g *Group) fixed(v *big.Int) []byte {
	out := make([]byte, g.Len)
	v.FillBytes(out)
	return out
}

func (g *Group) Public(x *big.Int) []byte {
	return g.fixed(new(big.Int).Exp(g.G, x, g.P))
}

func (g *Group) Shared(x, peer *big.Int) []byte {
	return g.fixed(new(big.Int).Exp(peer, x, g.P))
}

// SelfTest checks the reference against facts that do not come from the
// library: the primes are prime and safe, end in 64 one-bits, and the
// published first words of the RFC primes.
func SelfTest() error {
	for _, g := range []*Group{Group2, Group14} {
		if g.P.BitLen() != g.Len*8 {
			return fmt.Errorf("ref: group %d prime has %d bits", g.ID, g.P.BitLen())
		}
		if !g.P.ProbablyPrime(16) {
			return fmt.Errorf("ref: group %d modulus is not prime", g.ID)
		}
		q := new(big.Int).Rsh(g.P, 1)
		if !q.ProbablyPrime(16) {
			return fmt.Errorf("ref: group %d modulus is not a safe prime", g.ID)
		}
		b := g.P.Bytes()
		for i := 0; i < 8; i++ {
			if b[i] != 0xff || b[len(b)-1-i] != 0xff {
				return fmt.Errorf("ref: group %d modulus does not start/end with 64 one bits", g.ID)
			}
		}
		// C90FDAA2 2168C234 follows the leading ones in both RFC primes
		if binary.BigEndian.Uint64(b[8:16]) != 0xC90FDAA22168C234 {
			return fmt.Errorf("ref: group %d modulus: pi digits wrong", g.ID)
		}
	}
	// RFC 2202 test case 2 (HMAC-MD5 / HMAC-SHA1, key "Jefe")
	if fmt.Sprintf("%x", PrfMD5.Sum([]byte("Jefe"), []byte("what do ya want for nothing?"))) != "750c783e6ab0b503eaa86e310a5db738" {
		return errors.New("ref: HMAC-MD5 self-test")
	}
	if fmt.Sprintf("%x", PrfSHA1.Sum([]byte("Jefe"), []byte("what do ya want for nothing?"))) != "effcdf6ae5eb2fa2d27416d5f184df9c259a7c79" {
		return errors.New("ref: HMAC-SHA1 self-test")
	}
	// RFC 4231 test case 2
	if fmt.Sprintf("%x", PrfSHA256.Sum([]byte("Jefe"), []byte("what do ya want for nothing?"))) != "5bdcc146bf60754e6a042426089575c75a003f089d2739839dec58b964ec3843" {
		return errors.New("ref: HMAC-SHA256 self-test")
	}
	// RFC 3602 case 1: AES-128-CBC
	key := []byte{0x06, 0xa9, 0x21, 0x40, 0x36, 0xb8, 0xa1, 0x5b, 0x51, 0x2e, 0x03, 0xd5, 0x34, 0x12, 0x00, 0x06}
	iv := []byte{0x3d, 0xaf, 0xba, 0x42, 0x9d, 0x9e, 0xb4, 0x30, 0xb4, 0x22, 0xda, 0x80, 0x2c, 0x9f, 0xac, 0x41}
	ct, _ := CBCEncrypt(key, iv, []byte("Single block msg"))
	if fmt.Sprintf("%x", ct) != "e353779c1079aeb82708942dbe77181a" {
		return errors.New("ref: AES-CBC self-test")
	}
	pt, _ := CBCDecrypt(key, iv, ct)
	if string(pt) != "Single block msg" {
		return errors.New("ref: AES-CBC decrypt self-test")
	}
	return nil
}
