package ref

import (
	"encoding/binary"
	"errors"
	"fmt"
)

// A small RFC 7296 §3 codec for the simple payload kinds, enough for the
// reference peer to parse what the library protected and to build what the
// library must accept. SA (33) is deliberately not covered; EAP is raw octets.

const (
	TKE = 34 + iota
	TIDi
	TIDr
	TCERT
	TCERTREQ
	TAUTH
	TNonce
	TN
	TD
	TV
	TTSi
	TTSr
	TSK
	TCP
	TEAP
)

type TS struct {
	Type, Proto  uint8
	SPort, EPort uint16
	SAddr, EAddr []byte
}

type CPAttr struct {
	Type  uint16
	Value []byte
}

type Payload struct {
	Type    uint8
	A       uint8  // id type / cert encoding / auth method / protocol id / cfg type
	B       uint16 // dh group / notify type
	Data    []byte
	SPI     []byte
	SPISize uint8
	SPIs    []uint32
	TS      []TS
	Attrs   []CPAttr
}

// CanCodec says whether the reference implements payload type t.
func CanCodec(t uint8) bool { return t >= TKE && t <= TEAP && t != TSK }

func EncodeBody(p *Payload) ([]byte, error) {
	switch p.Type {
	case TKE:
		b := []byte{byte(p.B >> 8), byte(p.B), 0, 0}
		return append(b, p.Data...), nil
	case TIDi, TIDr, TAUTH:
		return append([]byte{p.A, 0, 0, 0}, p.Data...), nil
	case TCERT, TCERTREQ:
		return append([]byte{p.A}, p.Data...), nil
	case TNonce, TV, TEAP:
		return append([]byte{}, p.Data...), nil
	case TN:
		if len(p.SPI) > 255 {
			return nil, errors.New("ref: notify SPI too long")
		}
		b := []byte{p.A, byte(len(p.SPI)), byte(p.B >> 8), byte(p.B)}
		b = append(b, p.SPI...)
		return append(b, p.Data...), nil
	case TD:
		n := len(p.SPIs)
		b := []byte{p.A, p.SPISize, byte(n >> 8), byte(n)}
		for _, s := range p.SPIs {
			if p.SPISize != 4 {
				return nil, errors.New("ref: delete with SPIs needs SPI size 4")
			}
			b = binary.BigEndian.AppendUint32(b, s)
		}
		return b, nil
	case TTSi, TTSr:
		if len(p.TS) == 0 || len(p.TS) > 255 {
			return nil, errors.New("ref: TS count")
		}
		b := []byte{byte(len(p.TS)), 0, 0, 0}
		for _, t := range p.TS {
			al := 4
			if t.Type == 8 {
				al = 16
			} else if t.Type != 7 {
				return nil, errors.New("ref: TS type")
			}
			if len(t.SAddr) != al || len(t.EAddr) != al {
				return nil, errors.New("ref: TS address size")
			}
			l := 8 + 2*al
			b = append(b, t.Type, t.Proto, byte(l>>8), byte(l),
				byte(t.SPort>>8), byte(t.SPort), byte(t.EPort>>8), byte(t.EPort))
			b = append(b, t.SAddr...)
			b = append(b, t.EAddr...)
		}
		return b, nil
	case TCP:
		b := []byte{p.A, 0, 0, 0}
		for _, a := range p.Attrs {
			if a.Type >= 0x8000 || len(a.Value) > 65535 {
				return nil, errors.New("ref: CP attribute")
			}
			b = append(b, byte(a.Type>>8), byte(a.Type), byte(len(a.Value)>>8), byte(len(a.Value)))
			b = append(b, a.Value...)
		}
		return b, nil
	}
	return nil, fmt.Errorf("ref: payload type %d not implemented", p.Type)
}

func DecodeBody(t uint8, b []byte) (*Payload, error) {
	p := &Payload{Type: t}
	short := errors.New("ref: payload body too short")
	switch t {
	case TKE:
		if len(b) < 4 {
			return nil, short
		}
		p.B = binary.BigEndian.Uint16(b)
		p.Data = b[4:]
	case TIDi, TIDr, TAUTH:
		if len(b) < 4 {
			return nil, short
		}
		p.A = b[0]
		p.Data = b[4:]
	case TCERT, TCERTREQ:
		if len(b) < 1 {
			return nil, short
		}
		p.A = b[0]
		p.Data = b[1:]
	case TNonce, TV, TEAP:
		p.Data = b
	case TN:
		if len(b) < 4 || len(b) < 4+int(b[1]) {
			return nil, short
		}
		p.A = b[0]
		p.B = binary.BigEndian.Uint16(b[2:])
		p.SPI = b[4 : 4+int(b[1])]
		p.Data = b[4+int(b[1]):]
	case TD:
		if len(b) < 4 {
			return nil, short
		}
		p.A, p.SPISize = b[0], b[1]
		n := int(binary.BigEndian.Uint16(b[2:]))
		if len(b) != 4+n*int(p.SPISize) {
			return nil, errors.New("ref: delete size mismatch")
		}
		if n > 0 && p.SPISize != 4 {
			return nil, errors.New("ref: delete SPI size not 4")
		}
		for i := 0; i < n; i++ {
			p.SPIs = append(p.SPIs, binary.BigEndian.Uint32(b[4+4*i:]))
		}
	case TTSi, TTSr:
		if len(b) < 4 {
			return nil, short
		}
		n := int(b[0])
		b = b[4:]
		for i := 0; i < n; i++ {
			if len(b) < 8 {
				return nil, short
			}
			l := int(binary.BigEndian.Uint16(b[2:]))
			al := 4
			if b[0] == 8 {
				al = 16
			} else if b[0] != 7 {
				return nil, errors.New("ref: TS type")
			}
			if l != 8+2*al || len(b) < l {
				return nil, errors.New("ref: TS length")
			}
			p.TS = append(p.TS, TS{
				Type: b[0], Proto: b[1],
				SPort: binary.BigEndian.Uint16(b[4:]), EPort: binary.BigEndian.Uint16(b[6:]),
				SAddr: b[8 : 8+al], EAddr: b[8+al : l],
			})
			b = b[l:]
		}
		if len(b) != 0 {
			return nil, errors.New("ref: TS trailing octets")
		}
	case TCP:
		if len(b) < 4 {
			return nil, short
		}
		p.A = b[0]
		b = b[4:]
		for len(b) > 0 {
			if len(b) < 4 {
				return nil, short
			}
			l := int(binary.BigEndian.Uint16(b[2:]))
			if len(b) < 4+l {
				return nil, short
			}
			p.Attrs = append(p.Attrs, CPAttr{Type: binary.BigEndian.Uint16(b) & 0x7fff, Value: b[4 : 4+l]})
			b = b[4+l:]
		}
	default:
		return nil, fmt.Errorf("ref: payload type %d not implemented", t)
	}
	return p, nil
}

// EncodeChain wraps bodies with generic headers.
func EncodeChain(types []uint8, bodies [][]byte) ([]byte, uint8, error) {
	var out []byte
	for i, body := range bodies {
		next := uint8(0)
		if i+1 < len(types) {
			next = types[i+1]
		}
		l := 4 + len(body)
		if l > 65535 {
			return nil, 0, errors.New("ref: payload exceeds 16-bit length")
		}
		out = append(out, next, 0, byte(l>>8), byte(l))
		out = append(out, body...)
	}
	first := uint8(0)
	if len(types) > 0 {
		first = types[0]
	}
	return out, first, nil
}

// ---------------------------------------------------------------------------
// SA payload (RFC 7296 §3.3): proposals, transforms, attributes. Decoder only:
// the reference peer must be able to PARSE what the library sent, following the
// "last substructure" markers (0 = last, 2 = more proposals, 3 = more transforms).
// ---------------------------------------------------------------------------

type SATransform struct {
	Type    uint8
	ID      uint16
	HasAttr bool
	TV      bool
	AType   uint16
	AValue  uint16
	AVar    []byte
}

type SAProposal struct {
	Num, Proto uint8
	SPI        []byte
	Transforms []SATransform
}

func DecodeSA(b []byte) ([]SAProposal, error) {
	var out []SAProposal
	for {
		if len(b) < 8 {
			return nil, errors.New("ref: SA: truncated proposal header")
		}
		last := b[0]
		pl := int(binary.BigEndian.Uint16(b[2:]))
		if pl < 8 || pl > len(b) {
			return nil, fmt.Errorf("ref: SA: proposal length %d outside [8,%d]", pl, len(b))
		}
		p := SAProposal{Num: b[4], Proto: b[5]}
		spi, nt := int(b[6]), int(b[7])
		if 8+spi > pl {
			return nil, errors.New("ref: SA: SPI exceeds proposal")
		}
		p.SPI = b[8 : 8+spi]
		t := b[8+spi : pl]
		for i := 0; i < nt; i++ {
			if len(t) < 8 {
				return nil, errors.New("ref: SA: truncated transform")
			}
			tl := int(binary.BigEndian.Uint16(t[2:]))
			if tl < 8 || tl > len(t) {
				return nil, fmt.Errorf("ref: SA: transform length %d outside [8,%d]", tl, len(t))
			}
			wantMore := byte(3)
			if i == nt-1 {
				wantMore = 0
			}
			if t[0] != wantMore {
				return nil, fmt.Errorf("ref: SA: transform %d of %d carries last-substructure marker %d, expected %d", i+1, nt, t[0], wantMore)
			}
			tr := SATransform{Type: t[4], ID: binary.BigEndian.Uint16(t[6:])}
			if tl > 8 {
				if tl < 12 {
					return nil, errors.New("ref: SA: attribute header truncated")
				}
				tr.HasAttr = true
				ft := binary.BigEndian.Uint16(t[8:])
				tr.TV = ft&0x8000 != 0
				tr.AType = ft & 0x7fff
				if tr.TV {
					if tl != 12 {
						return nil, errors.New("ref: SA: TV attribute with extra octets")
					}
					tr.AValue = binary.BigEndian.Uint16(t[10:])
				} else {
					al := int(binary.BigEndian.Uint16(t[10:]))
					if 12+al != tl {
						return nil, errors.New("ref: SA: TLV attribute length mismatch")
					}
					tr.AVar = t[12:tl]
				}
			}
			p.Transforms = append(p.Transforms, tr)
			t = t[tl:]
		}
		if len(t) != 0 {
			return nil, errors.New("ref: SA: octets left after the announced number of transforms")
		}
		out = append(out, p)
		b = b[pl:]
		switch {
		case last == 0 && len(b) == 0:
			return out, nil
		case last == 0:
			return nil, errors.New("ref: SA: proposal marked last is followed by more octets")
		case last != 2:
			return nil, fmt.Errorf("ref: SA: proposal last-substructure marker %d (expected 0 or 2)", last)
		case len(b) == 0:
			return nil, errors.New("ref: SA: proposal marked 'more follow' is the last one")
		}
	}
}
