package main

import (
	"bytes"
	"fmt"
	"math/big"

	"github.com/free5gc/ike/message"
	"github.com/free5gc/ike/security"

	"ikesim/ref"
)

// ---------------------------------------------------------------------------
// C09 — MODP groups 2/14: RFC primes, agreement, fixed-length output, sound
// exponents; random-source failure at any read gives an error, not a key.
// ---------------------------------------------------------------------------

func init() {
	finals["C09"] = c09Final
	ops["dh_gen"] = opDHGen
	ops["dh_gen_failsweep"] = opDHGenFailSweep
	ops["dh_pub"] = opDHPub
	ops["dh_shared"] = opDHShared
	ops["dh_agree"] = opDHAgree
	ops["dh_newsa"] = opDHNewSA
	ops["dh_materials"] = opDHMaterials
	ops["dh_spin"] = opDHSpin
	ops["dh_newsa_failsweep"] = opDHNewSAFailSweep
	props["C09"] = &PropDef{
		ID: "C09", Level: "fault_enumeration",
		Gen:   genC09,
		Count: map[string]int{"quick": 6000, "thorough": 120000},
		Rule: "scenario = 3..10 DH steps on group 2 or 14 (stratified): exponent generation under every random-source script (clean, short reads " +
			"1/7/64/255, all-0xFF and all-zero bursts forcing both rejection loops, scripted boundary exponents), failure injected at EVERY read index " +
			"of a clean run in all three failure modes (dh_gen_failsweep, dh_newsa_failsweep), public values and shared secrets for exponents " +
			"0,1,p-1,p,2^2048-1, small exponents (results with up to 127 leading zero octets), peer values 0,1,p-1,p,p+1,2^2056-1 and random, " +
			"two-party agreement with generated exponents, and NewIKESAKey against a harness-side initiator. Oracle: independent modexp with primes " +
			"computed from pi. Non-trivial = at least one modular exponentiation compared with the reference and one injected failure fired or one " +
			"rejection-loop burst served; distinct = distinct abstract traces.",
		Components: defaultComponents,
	}
}

var (
	two128  = new(big.Int).Lsh(big.NewInt(1), 128)
	two2048 = new(big.Int).Lsh(big.NewInt(1), 2048)
)

type heldExp struct {
	obj  *big.Int
	snap *big.Int
	step int
}

type c09State struct {
	exps map[string]bool
	held []heldExp
}

// c09Final: exponents handed out earlier are still the numbers they were, and no two callers
// were given the same object.
func c09Final(w *World) {
	hv, _ := w.ext["c09_heldvals"].([]heldVal)
	for _, h := range hv {
		if !bytes.Equal(h.buf, h.snap) {
			w.violate("returned_value_changed_later", "dh", "the %s returned at step %d changed after later DH operations (the library kept a reference to memory it handed out)", h.what, h.step)
			break
		}
	}
	st := c09st(w)
	for i, h := range st.held {
		if h.obj.Cmp(h.snap) != 0 {
			w.violate("exponent_changed_later", "GenerateRandomNumber", "an exponent returned by GenerateRandomNumber at step %d changed its value after later calls", h.step)
			return
		}
		for j := 0; j < i; j++ {
			if st.held[j].obj == h.obj {
				w.violate("same_exponent_object_returned_twice", "GenerateRandomNumber", "two GenerateRandomNumber calls (steps %d and %d) returned the same *big.Int object", st.held[j].step, h.step)
				return
			}
		}
	}
}

func c09st(w *World) *c09State {
	st, _ := w.ext["c09"].(*c09State)
	if st == nil {
		st = &c09State{exps: map[string]bool{}}
		w.ext["c09"] = st
	}
	return st
}

func genNumber(rs *RandScript) (*big.Int, *callResult) {
	res := &callResult{}
	sc := RandScript{Seed: 6}
	if rs != nil {
		sc = *rs
	}
	res.RandSt = simRand.begin(sc)
	var x *big.Int
	guard(res, func() { x, res.Err = security.GenerateRandomNumber() })
	simRand.end()
	return x, res
}

func noteRandFaults(w *World, rs *RandScript, st *randState) {
	if st.fired {
		w.stats.inc("fault_rand_failure_fired")
		fm := "err"
		if rs != nil && rs.FailMode != "" {
			fm = rs.FailMode
		}
		w.stats.inc("fault_rand_failure_" + fm)
	} else if rs != nil && rs.FailAt > 0 {
		w.stats.inc("rand_failure_scripted_but_not_reached")
	}
	if rs != nil && rs.Chunk > 0 {
		w.stats.inc("fault_rand_short_reads")
	}
	if rs != nil && rs.PatReads > 0 {
		if rs.PatByte == 0xff {
			w.stats.inc("fault_rand_burst_all_ff")
		} else {
			w.stats.inc("fault_rand_burst_low")
		}
	}
}

// c09CheckExponent evaluates the exponent clauses for one generated number.
func c09CheckExponent(w *World, x *big.Int, res *callResult, rs *RandScript, repeat bool) {
	if x.Cmp(two128) < 0 || x.Cmp(two2048) >= 0 {
		w.violate("exponent_out_of_range", "range", "generated exponent has %d bits: outside [2^128, 2^2048)", x.BitLen())
	}
	if res.RandSt.total < 16 {
		w.violate("exponent_not_from_random_source", "consumed", "GenerateRandomNumber consumed only %d octets from the random source", res.RandSt.total)
	}
	plain := rs == nil || (rs.PatReads == 0 && len(rs.Prefix) == 0 && !repeat)
	st := c09st(w)
	k := string(x.Bytes())
	if plain {
		if st.exps[k] {
			w.violate("exponent_repeated", "distinct", "the same exponent was generated twice although the random stream does not repeat")
		}
		w.stats.inc("exponent_freshness_checked")
	}
	st.exps[k] = true
	st.held = append(st.held, heldExp{x, new(big.Int).Set(x), w.step})
	// probes for the two rejection loops: a clean draw needs ceil(256/chunk) reads
	need := 1
	if rs != nil && rs.Chunk > 0 {
		need = (256 + rs.Chunk - 1) / rs.Chunk
	}
	if res.RandSt.calls > need {
		if rs != nil && rs.PatReads > 0 && rs.PatByte == 0xff {
			w.stats.inc("probe_rand_int_rejection_loop")
		} else {
			w.stats.inc("probe_lower_bound_rejection_loop")
		}
		w.ext["c09_neg"] = true
	}
}

func opDHGen(w *World, s *Step) (string, string) {
	x, res := genNumber(s.Rand)
	noteRandFaults(w, s.Rand, res.RandSt)
	abs := fmt.Sprintf("%s:fired=%v", res.class(), res.RandSt.fired)
	if w.prop != "C09" {
		if x == nil {
			return res.class(), abs
		}
		held, _ := w.ext["held_exponents"].([]*big.Int)
		w.ext["held_exponents"] = append(held, x) // read again when the task ends (C18)
		return fmt.Sprintf("%s:%x", res.class(), fnv1a(0, x.Bytes())), abs
	}
	switch {
	case res.Panic != "":
		w.violate("gen_panic", panicKey(res), "GenerateRandomNumber panicked: %s", res.Panic)
	case res.RandSt.fired:
		if res.Err == nil || x != nil {
			w.violate("rand_failure_ignored", "GenerateRandomNumber", "random source failed at read %d (%s) but GenerateRandomNumber returned err=%v number=%v",
				s.Rand.FailAt, s.Rand.FailMode, res.Err, x != nil)
		}
		w.ext["c09_neg"] = true
		c09Nontriv(w)
		return "failed", abs
	case res.Err != nil:
		w.violate("gen_error", "GenerateRandomNumber", "GenerateRandomNumber failed without an injected fault: %v", res.Err)
	default:
		c09CheckExponent(w, x, res, s.Rand, s.Repeat != 0)
		// the exponent must carry the randomness it was drawn with: at least 16 octet positions of the served
		// stream (128 bits) must each influence it
		plain := s.Rand == nil || (s.Rand.PatReads == 0 && len(s.Rand.Prefix) == 0 && s.Repeat == 0 && s.Rand.Chunk == 0)
		if plain && w.step%3 == 0 && w.pendingExpand == nil && res.RandSt.total <= 600 {
			dep := 0
			for j := 1; j <= res.RandSt.total && dep < 16; j += 1 + res.RandSt.total/40 {
				sc := RandScript{Seed: 6}
				if s.Rand != nil {
					sc = *s.Rand
				}
				sc.FlipAt = j
				x2, r2 := genNumber(&sc)
				if r2.class() == "ok" && x2 != nil && x2.Cmp(x) != 0 {
					dep++
				}
			}
			if dep < 16 {
				w.violate("exponent_depends_on_too_few_random_octets", "GenerateRandomNumber", "only %d sampled octet positions of the %d octets drawn influence the exponent (128 bits need 16)", dep, res.RandSt.total)
			}
			w.stats.inc("exponent_dependency_on_random_stream_checked")
		}
	}
	c09Nontriv(w)
	return res.class(), abs
}

func c09Nontriv(w *World) {
	if w.ext["c09_modexp"] == true && w.ext["c09_neg"] == true {
		w.nontriv = true
	}
}

func opDHGenFailSweep(w *World, s *Step) (string, string) {
	base := RandScript{Seed: 7}
	if s.Rand != nil {
		base = *s.Rand
	}
	base.FailAt = 0
	_, clean := genNumber(&base)
	reads := clean.RandSt.calls
	modes := []string{"err", "eof", "partial"}
	lo, hi := s.From_, reads*3
	if s.To_ > 0 && s.To_ < hi {
		hi = s.To_
	}
	fired := 0
	for i := lo; i < hi; i++ {
		sc := base
		sc.FailAt, sc.FailMode = i/3+1, modes[i%3]
		sub := Step{Op: "dh_gen", Rand: &sc, Repeat: 1}
		w.pendingExpand = &sub
		obs, _ := opDHGen(w, &sub)
		w.pendingExpand = nil
		w.stats.inc("events")
		if obs == "failed" {
			fired++
		}
	}
	w.stats.inc("sweep_dh_gen_fail")
	w.stats.add("dh_gen_fail_sweep_reads", int64(reads))
	return fmt.Sprintf("reads=%d:fired=%d", reads, fired), fmt.Sprintf("failsweep:chunk=%d", base.Chunk)
}

func leadingZeros(b []byte) int {
	n := 0
	for n < len(b) && b[n] == 0 {
		n++
	}
	return n
}

type heldVal struct {
	buf  []byte
	snap []byte
	what string
	step int
}

func c09CheckValue(w *World, g *ref.Group, got, want []byte, oracle, what string) {
	w.ext["c09_modexp"] = true
	if len(got) > 0 {
		// the caller keeps the returned octet string; it must still hold this value at the end of the run
		hv, _ := w.ext["c09_heldvals"].([]heldVal)
		if len(hv) < 64 {
			w.ext["c09_heldvals"] = append(hv, heldVal{got, clone(got), what, w.step})
		}
	}
	switch {
	case len(got) != g.Len:
		w.violate(oracle+"_length", fmt.Sprintf("group%d", g.ID), "%s has %d octets, the modulus has %d (leading zeros must be preserved)", what, len(got), g.Len)
	case !bytes.Equal(got, want):
		w.violate(oracle+"_value", fmt.Sprintf("group%d", g.ID), "%s differs from the reference modexp over the RFC prime:\n got  %x\n want %x", what, trunc(got, 48), trunc(want, 48))
	}
	if z := leadingZeros(want); z > 0 {
		w.stats.inc("probe_result_with_leading_zero_octet")
		if z >= 16 {
			w.stats.inc("probe_result_with_16plus_leading_zero_octets")
		}
	}
}

// exponentObj returns the *big.Int the caller hands to the library: a fresh one, or (Repeat)
// the world's long-lived one set to the new value, as a caller reusing its variable would.
func exponentObj(w *World, s *Step) *big.Int {
	if s.Repeat == 0 {
		return new(big.Int).SetBytes(s.X)
	}
	x, _ := w.ext["c09_x"].(*big.Int)
	if x == nil {
		x = new(big.Int)
		w.ext["c09_x"] = x
	}
	w.stats.inc("probe_exponent_object_reused")
	return x.SetBytes(s.X)
}

func opDHPub(w *World, s *Step) (string, string) {
	g, lib := ref.GroupByID(uint16(s.Group)), libDH(s.Group)
	if g == nil || lib == nil {
		return "nogroup", "nogroup"
	}
	x := exponentObj(w, s)
	xBefore := new(big.Int).Set(x)
	res := &callResult{}
	var got []byte
	guard(res, func() { got = lib.GetPublicValue(x) })
	if w.prop == "C09" && x.Cmp(xBefore) != 0 {
		w.violate("exponent_argument_modified", "GetPublicValue", "GetPublicValue changed the caller's exponent object")
	}
	x = xBefore
	abs := fmt.Sprintf("g%d:%s", s.Group, res.class())
	if w.prop != "C09" {
		return fmt.Sprintf("%s:%x", res.class(), fnv1a(0, got)), abs
	}
	if res.Panic != "" {
		w.violate("dh_panic", panicKey(res), "GetPublicValue panicked for a %d-bit exponent: %s", x.BitLen(), res.Panic)
		return "panic", abs
	}
	c09CheckValue(w, g, got, g.Public(x), "public", fmt.Sprintf("public value for a %d-bit exponent", x.BitLen()))
	c09Nontriv(w)
	return "ok", abs
}

func opDHShared(w *World, s *Step) (string, string) {
	g, lib := ref.GroupByID(uint16(s.Group)), libDH(s.Group)
	if g == nil || lib == nil {
		return "nogroup", "nogroup"
	}
	x, y := exponentObj(w, s), new(big.Int).SetBytes(s.Y)
	xBefore, yBefore := new(big.Int).Set(x), new(big.Int).Set(y)
	res := &callResult{}
	var got []byte
	guard(res, func() { got = lib.GetSharedKey(x, y) })
	if w.prop == "C09" && (x.Cmp(xBefore) != 0 || y.Cmp(yBefore) != 0) {
		w.violate("exponent_argument_modified", "GetSharedKey", "GetSharedKey changed the caller's exponent or peer-value object (a party that uses its exponent again gets a wrong value)")
	}
	x, y = xBefore, yBefore
	abs := fmt.Sprintf("g%d:%s", s.Group, res.class())
	if w.prop != "C09" {
		return fmt.Sprintf("%s:%x", res.class(), fnv1a(0, got)), abs
	}
	if res.Panic != "" {
		w.violate("dh_panic", panicKey(res), "GetSharedKey panicked (%d-bit exponent, %d-bit peer value): %s", x.BitLen(), y.BitLen(), res.Panic)
		return "panic", abs
	}
	c09CheckValue(w, g, got, g.Shared(x, y), "shared", fmt.Sprintf("shared secret (%d-bit exponent, %d-bit peer value)", x.BitLen(), y.BitLen()))
	c09Nontriv(w)
	return "ok", abs
}

// opDHAgree: two parties with generated exponents compute the same secret.
func opDHAgree(w *World, s *Step) (string, string) {
	g, lib := ref.GroupByID(uint16(s.Group)), libDH(s.Group)
	if g == nil || lib == nil {
		return "nogroup", "nogroup"
	}
	xa, ra := genNumber(s.Rand)
	xb, rb := genNumber(s.Rand2)
	abs := fmt.Sprintf("g%d:%s:%s", s.Group, ra.class(), rb.class())
	if ra.class() != "ok" || rb.class() != "ok" {
		if w.prop == "C09" {
			w.violate("gen_error", "GenerateRandomNumber", "GenerateRandomNumber failed without an injected fault: %v %v %s %s", ra.Err, rb.Err, ra.Panic, rb.Panic)
		}
		return "generr", abs
	}
	res := &callResult{}
	var pa, pb, sa, sb []byte
	xaV, xbV := new(big.Int).Set(xa), new(big.Int).Set(xb)
	guard(res, func() {
		pa = lib.GetPublicValue(xa)
		if s.N == 1 {
			// the responder may compute the shared secret first and its public value afterwards
			sb = lib.GetSharedKey(xb, new(big.Int).SetBytes(pa))
			pb = lib.GetPublicValue(xb)
		} else {
			pb = lib.GetPublicValue(xb)
			sb = lib.GetSharedKey(xb, new(big.Int).SetBytes(pa))
		}
		sa = lib.GetSharedKey(xa, new(big.Int).SetBytes(pb))
	})
	if w.prop != "C09" {
		return fmt.Sprintf("%s:%x:%x", res.class(), fnv1a(0, sa), fnv1a(0, sb)), abs
	}
	if res.Panic != "" {
		w.violate("dh_panic", panicKey(res), "DH agreement panicked: %s", res.Panic)
		return "panic", abs
	}
	c09CheckExponent(w, xa, ra, s.Rand, false)
	c09CheckExponent(w, xb, rb, s.Rand2, false)
	c09CheckValue(w, g, pa, g.Public(xaV), "public", "initiator public value")
	c09CheckValue(w, g, pb, g.Public(xbV), "public", "responder public value")
	want := g.Shared(xaV, new(big.Int).SetBytes(g.Public(xbV)))
	c09CheckValue(w, g, sa, want, "shared", "initiator shared secret")
	c09CheckValue(w, g, sb, want, "shared", "responder shared secret")
	if !bytes.Equal(sa, sb) {
		w.violate("parties_disagree", fmt.Sprintf("group%d", g.ID), "the two parties computed different shared secrets")
	}
	w.stats.inc("two_party_agreements")
	c09Nontriv(w)
	return "ok", abs
}

func ikeProposal(su Suite) (*message.Proposal, error) {
	o := &security.IKESAKey{DhInfo: libDH(su.DH), EncrInfo: libEncr(su.Encr), IntegInfo: libInteg(su.Integ), PrfInfo: libPrf(su.Prf)}
	if o.DhInfo == nil || o.EncrInfo == nil || o.IntegInfo == nil || o.PrfInfo == nil {
		return nil, fmt.Errorf("library does not know suite %s", su)
	}
	return o.ToProposal()
}

// newIKESA runs security.NewIKESAKey as responder against a harness-side
// initiator whose exponent a (s.X) is known: KEi = g^a by the reference.
func newIKESA(s *Step, su Suite, rs *RandScript) (*security.IKESAKey, []byte, *callResult, []byte) {
	g := ref.GroupByID(uint16(su.DH))
	a := new(big.Int).SetBytes(s.X)
	kei := g.Public(a)
	if s.N > 0 {
		// a Byzantine / sloppy peer sends g^a + m*p: same residue, longer than the modulus
		v := new(big.Int).SetBytes(kei)
		v.Add(v, new(big.Int).Mul(g.P, big.NewInt(int64(s.N))))
		kei = v.Bytes()
	}
	res := &callResult{}
	prop, err := ikeProposal(su)
	if err != nil {
		res.Err = err
		res.RandSt = newRandState(RandScript{})
		return nil, nil, res, kei
	}
	sc := RandScript{Seed: 8}
	if rs != nil {
		sc = *rs
	}
	res.RandSt = simRand.begin(sc)
	var obj *security.IKESAKey
	var pub []byte
	guard(res, func() {
		obj, pub, res.Err = security.NewIKESAKey(prop, kei, append(clone(s.Nonce), s.Nonce2...), s.SpiI, s.SpiR)
	})
	simRand.end()
	return obj, pub, res, kei
}

func opDHNewSA(w *World, s *Step) (string, string) {
	if s.Suite == nil {
		return "nosuite", "nosuite"
	}
	su := *s.Suite
	g := ref.GroupByID(uint16(su.DH))
	if g == nil {
		return "nogroup", "nogroup"
	}
	obj, pub, res, _ := newIKESA(s, su, s.Rand)
	noteRandFaults(w, s.Rand, res.RandSt)
	abs := fmt.Sprintf("%s:%s:fired=%v", su, res.class(), res.RandSt.fired)
	if w.prop != "C09" {
		return fmt.Sprintf("%s:%x", res.class(), fnv1a(0, pub)), abs
	}
	switch {
	case res.Panic != "":
		w.violate("newikesa_panic", panicKey(res), "NewIKESAKey panicked: %s", res.Panic)
		return "panic", abs
	case res.RandSt.fired:
		if res.Err == nil || obj != nil || pub != nil {
			w.violate("rand_failure_ignored", "NewIKESAKey", "random source failed at read %d (%s) but NewIKESAKey returned err=%v key=%v public=%d octets",
				s.Rand.FailAt, s.Rand.FailMode, res.Err, obj != nil, len(pub))
		}
		w.ext["c09_neg"] = true
		c09Nontriv(w)
		return "failed", abs
	case res.Err != nil:
		w.violate("newikesa_error", su.String(), "NewIKESAKey failed without an injected fault: %v", res.Err)
		return "err", abs
	}
	if len(pub) != g.Len {
		w.violate("public_length", fmt.Sprintf("group%d", g.ID), "local public value returned by NewIKESAKey has %d octets, modulus has %d", len(pub), g.Len)
		return "badpub", abs
	}
	// the initiator (reference) computes pub^a; the responder's keys must follow from it
	a := new(big.Int).SetBytes(s.X)
	shared := g.Shared(a, new(big.Int).SetBytes(pub))
	w.ext["c09_modexp"] = true
	// attribution: the KDF is C07's business, so the yardstick is the library's own
	// KDF applied to the reference shared secret; only the DH part can differ.
	twin, err := kdfKeyObj(su, append(clone(s.Nonce), s.Nonce2...), shared, s.SpiI, s.SpiR)
	if err != nil {
		w.stats.inc("c09_kdf_yardstick_failed")
		return "kdferr", abs
	}
	if !bytes.Equal(obj.SK_d, twin.SK_d) || !bytes.Equal(obj.SK_ei, twin.SK_ei) || !bytes.Equal(obj.SK_ar, twin.SK_ar) || !bytes.Equal(obj.SK_pr, twin.SK_pr) {
		w.violate("responder_secret_mismatch", fmt.Sprintf("group%d", g.ID),
			"keys of the SA returned by NewIKESAKey do not follow from (peer public)^x = (local public)^a over the RFC prime: the responder's shared secret or public value is wrong")
	}
	if z := leadingZeros(shared); z > 0 {
		w.stats.inc("probe_result_with_leading_zero_octet")
	}
	w.stats.inc("newikesa_checked")
	c09Nontriv(w)
	return "ok", abs
}

// opDHMaterials: the responder-side helper CalculateDiffieHellmanMaterials against a harness-side peer whose
// exponent is known. The caller then builds on the returned values the way Go code does (append).
func opDHMaterials(w *World, s *Step) (string, string) {
	g, lib := ref.GroupByID(uint16(s.Group)), libDH(s.Group)
	if g == nil || lib == nil {
		return "nogroup", "nogroup"
	}
	a := new(big.Int).SetBytes(s.X)
	kei := g.Public(a)
	sc := RandScript{Seed: 12}
	if s.Rand != nil {
		sc = *s.Rand
	}
	res := &callResult{}
	res.RandSt = simRand.begin(sc)
	var pub, shared []byte
	guard(res, func() {
		pub, shared, res.Err = security.CalculateDiffieHellmanMaterials(&security.IKESAKey{DhInfo: lib}, clone(kei))
	})
	simRand.end()
	noteRandFaults(w, s.Rand, res.RandSt)
	abs := fmt.Sprintf("mat:g%d:%s:fired=%v", s.Group, res.class(), res.RandSt.fired)
	if w.prop != "C09" {
		return fmt.Sprintf("%s:%x:%x", res.class(), fnv1a(0, pub), fnv1a(0, shared)), abs
	}
	switch {
	case res.Panic != "":
		w.violate("dh_panic", panicKey(res), "CalculateDiffieHellmanMaterials panicked: %s", res.Panic)
		return "panic", abs
	case res.RandSt.fired:
		if res.Err == nil || pub != nil || shared != nil {
			w.violate("rand_failure_ignored", "CalculateDiffieHellmanMaterials", "random source failed at read %d (%s) but CalculateDiffieHellmanMaterials returned err=%v public=%d octets secret=%d octets",
				s.Rand.FailAt, s.Rand.FailMode, res.Err, len(pub), len(shared))
		}
		w.ext["c09_neg"] = true
		c09Nontriv(w)
		return "failed", abs
	case res.Err != nil:
		w.violate("gen_error", "CalculateDiffieHellmanMaterials", "CalculateDiffieHellmanMaterials failed without an injected fault: %v", res.Err)
		return "err", abs
	}
	if len(pub) != g.Len {
		w.violate("public_length", fmt.Sprintf("group%d", g.ID), "local public value returned by CalculateDiffieHellmanMaterials has %d octets, modulus has %d", len(pub), g.Len)
		return "badpub", abs
	}
	want := g.Shared(a, new(big.Int).SetBytes(pub)) // what the peer computes from our public value
	c09CheckValue(w, g, shared, want, "shared", "shared secret returned by CalculateDiffieHellmanMaterials (peer computes (local public)^a)")
	// yardstick for the public value: the exponent GenerateRandomNumber draws from the same random stream
	clean := sc
	clean.FailAt = 0
	if x, xr := genNumber(&clean); xr.class() == "ok" {
		c09CheckValue(w, g, pub, g.Public(x), "public", "public value returned by CalculateDiffieHellmanMaterials")
	}
	// the caller builds KE | nonce style buffers by appending to what it was given
	pubSnap, shSnap := clone(pub), clone(shared)
	tail := bytes.Repeat([]byte{0xa5}, 1+len(s.X)%61)
	_ = append(pub, tail...)
	if !bytes.Equal(shared, shSnap) {
		w.violate("returned_values_share_memory", "CalculateDiffieHellmanMaterials", "appending %d octets to the returned public value changed the returned shared secret", len(tail))
	}
	_ = append(shared, tail...)
	if !bytes.Equal(pub, pubSnap) {
		w.violate("returned_values_share_memory", "CalculateDiffieHellmanMaterials", "appending %d octets to the returned shared secret changed the returned public value", len(tail))
	}
	w.stats.inc("dh_materials_checked")
	c09Nontriv(w)
	return "ok", abs
}

// opDHSpin: a long-lived process. The group objects are process-wide; a busy gateway performs millions of
// operations on them. N cheap operations (tiny exponents, so a modexp costs about a microsecond), each
// compared with a table of reference values; the steps after it see a group object with that history.
func opDHSpin(w *World, s *Step) (string, string) {
	g, lib := ref.GroupByID(uint16(s.Group)), libDH(s.Group)
	if g == nil || lib == nil {
		return "nogroup", "nogroup"
	}
	const tab = 8
	var xs [tab]*big.Int
	var pubs, shs [tab][]byte
	y := new(big.Int).SetBytes(s.Y)
	for i := range xs {
		xs[i] = big.NewInt(int64(i + 1))
		pubs[i] = g.Public(xs[i])
		shs[i] = g.Shared(xs[i], y)
	}
	res := &callResult{}
	bad := -1
	var got []byte
	guard(res, func() {
		for i := 0; i < s.N; i++ {
			k := i % tab
			if i&1 == 0 {
				got = lib.GetPublicValue(xs[k])
				if !bytes.Equal(got, pubs[k]) {
					bad = i
					return
				}
			} else {
				got = lib.GetSharedKey(xs[k], y)
				if !bytes.Equal(got, shs[k]) {
					bad = i
					return
				}
			}
		}
	})
	w.stats.add("dh_spin_operations", int64(s.N))
	abs := fmt.Sprintf("spin:g%d:%s", s.Group, res.class())
	if w.prop != "C09" {
		return fmt.Sprintf("%s:%d", res.class(), bad), abs
	}
	if res.Panic != "" {
		w.violate("dh_panic", panicKey(res), "DH operation panicked during a run of %d operations on one group object: %s", s.N, res.Panic)
		return "panic", abs
	}
	if bad >= 0 {
		what := "public"
		if bad&1 == 1 {
			what = "shared"
		}
		w.violate(what+"_value", fmt.Sprintf("group%d", g.ID), "operation %d of a run of %d on one group object (exponent %d): result differs from the reference modexp over the RFC prime: got %x", bad+1, s.N, bad%tab+1, trunc(got, 48))
		return "bad", abs
	}
	w.ext["c09_modexp"] = true
	w.stats.inc("probe_million_operations_on_one_group_object")
	return "ok", abs
}

func opDHNewSAFailSweep(w *World, s *Step) (string, string) {
	if s.Suite == nil {
		return "nosuite", "nosuite"
	}
	base := RandScript{Seed: 9}
	if s.Rand != nil {
		base = *s.Rand
	}
	base.FailAt = 0
	// the read count of the exponent draw equals that of GenerateRandomNumber
	_, clean := genNumber(&base)
	reads := clean.RandSt.calls
	modes := []string{"err", "eof", "partial"}
	lo, hi := s.From_, reads*3
	if s.To_ > 0 && s.To_ < hi {
		hi = s.To_
	}
	fired := 0
	for i := lo; i < hi; i++ {
		sc := base
		sc.FailAt, sc.FailMode = i/3+1, modes[i%3]
		sub := *s
		sub.Op, sub.Rand, sub.From_, sub.To_ = "dh_newsa", &sc, 0, 0
		w.pendingExpand = &sub
		obs, _ := opDHNewSA(w, &sub)
		w.pendingExpand = nil
		w.stats.inc("events")
		if obs == "failed" {
			fired++
		}
	}
	w.stats.inc("sweep_dh_newsa_fail")
	return fmt.Sprintf("reads=%d:fired=%d", reads, fired), fmt.Sprintf("newsa_failsweep:chunk=%d", base.Chunk)
}

func bigBytes(v *big.Int) Hex {
	b := v.Bytes()
	if len(b) == 0 {
		return Hex{0}
	}
	return b
}

func genExponentBytes(r *Rng, g *ref.Group) Hex {
	one := big.NewInt(1)
	switch r.Intn(12) {
	case 0:
		return Hex{0}
	case 1:
		return Hex{1}
	case 2:
		return bigBytes(new(big.Int).Sub(g.P, one))
	case 3:
		return bigBytes(g.P)
	case 4:
		return bigBytes(new(big.Int).Sub(two2048, one))
	case 5: // small exponent: 2^x unreduced, many leading zero octets
		return bigBytes(big.NewInt(int64(r.Intn(g.Len*8 - 8))))
	case 6: // exponents around and beyond the bit length of the modulus (2^x just wraps once or a few times)
		return bigBytes(big.NewInt(int64(Pick(r, g.Len*8-1, g.Len*8, g.Len*8+1, r.Range(g.Len*8-8, 2*g.Len*8), r.Range(0, 5000)))))
	case 7:
		return bigBytes(two128)
	}
	return r.Bytes(Pick(r, 17, 32, 128, 255, 256, 256, 256))
}

func genPeerBytes(r *Rng, g *ref.Group) Hex {
	one := big.NewInt(1)
	switch r.Intn(12) {
	case 0:
		return Hex{0}
	case 1:
		return Hex{1}
	case 2:
		return bigBytes(new(big.Int).Sub(g.P, one))
	case 3:
		return bigBytes(g.P)
	case 4:
		return bigBytes(new(big.Int).Add(g.P, one))
	case 5:
		b := make([]byte, 257)
		for i := range b {
			b[i] = 0xff
		}
		return b
	case 6:
		return Hex{2}
	case 7: // genuine public value of a small exponent
		return bigBytes(new(big.Int).SetBytes(g.Public(big.NewInt(int64(r.Intn(2000))))))
	}
	return r.Bytes(Pick(r, 1, 64, g.Len, g.Len, 257))
}

func genDHRand(r *Rng) *RandScript {
	sc := &RandScript{Seed: r.U64()}
	switch r.Intn(10) {
	case 0, 1, 2:
		sc.Chunk = Pick(r, 1, 7, 64, 255)
	case 3: // rand.Int rejection: all-0xFF draws equal the maximum
		sc.PatReads, sc.PatByte = r.Range(1, 3), 0xff
	case 4: // lower-bound rejection: all-zero draws
		sc.PatReads, sc.PatByte = Pick(r, 1, 2, 3, 4, 5, 8, 12), 0x00
	case 5: // scripted boundary exponents
		v := Pick(r, two128, new(big.Int).Add(two128, big.NewInt(1)), new(big.Int).Sub(two128, big.NewInt(1)), new(big.Int).Sub(two2048, big.NewInt(2)))
		b := make([]byte, 256)
		v.FillBytes(b)
		sc.Prefix = b
	}
	return sc
}

func genC09(r *Rng, idx int, tier string) *Scenario {
	sc := &Scenario{}
	gid := dhGroups[idx%2]
	g := ref.GroupByID(uint16(gid))
	n := r.Range(3, 10)
	if idx%1499 == 1497 || idx%1499 == 1498 {
		// long-lived process: more than 2^20 operations on one group object, then ordinary steps
		sc.Steps = append(sc.Steps, Step{Op: "dh_spin", Group: gid, N: 1<<20 + 64 + r.Intn(1000), Y: genPeerBytes(r, g)})
	}
	for i := 0; i < n; i++ {
		switch r.Intn(16) {
		case 0, 1, 2:
			st := Step{Op: "dh_gen", Rand: genDHRand(r)}
			if r.Chance(1, 6) {
				st.Rand.FailAt = r.Range(1, 4)
				st.Rand.FailMode = Pick(r, "err", "eof", "partial")
			}
			sc.Steps = append(sc.Steps, st)
		case 3:
			sc.Steps = append(sc.Steps, Step{Op: "dh_gen_failsweep", Rand: &RandScript{Seed: r.U64(), Chunk: Pick(r, 0, 1, 7, 64, 255)}})
		case 4, 5, 6:
			sc.Steps = append(sc.Steps, Step{Op: "dh_pub", Group: gid, X: genExponentBytes(r, g), Repeat: r.Intn(2)})
		case 7, 8, 9, 10:
			sc.Steps = append(sc.Steps, Step{Op: "dh_shared", Group: gid, X: genExponentBytes(r, g), Y: genPeerBytes(r, g), Repeat: r.Intn(2)})
		case 11, 12:
			sc.Steps = append(sc.Steps, Step{Op: "dh_agree", Group: gid, Rand: genDHRand(r), Rand2: genDHRand(r), N: r.Intn(2)})
		case 13:
			st := Step{Op: "dh_materials", Group: gid, X: genExponentBytes(r, g), Rand: genDHRand(r)}
			if r.Chance(1, 5) {
				st.Rand.FailAt = r.Range(1, 3)
				st.Rand.FailMode = Pick(r, "err", "eof", "partial")
			}
			sc.Steps = append(sc.Steps, st)
		case 14:
			su := suiteByIndex(r.Intn(27))
			su.DH = gid
			st := Step{Op: "dh_newsa", Suite: &su, X: r.Bytes(Pick(r, 32, 128, 256)), Nonce: r.Bytes(r.Range(16, 64)), Nonce2: r.Bytes(r.Range(16, 64)),
				SpiI: r.U64(), SpiR: r.U64(), Rand: genDHRand(r)}
			if r.Chance(1, 5) {
				st.Rand.FailAt = r.Range(1, 3)
				st.Rand.FailMode = Pick(r, "err", "eof", "partial")
			}
			if r.Chance(1, 4) {
				st.N = Pick(r, 1, 2, 255, 256, 65535)
			}
			sc.Steps = append(sc.Steps, st)
		case 15:
			su := suiteByIndex(r.Intn(27))
			su.DH = gid
			sc.Steps = append(sc.Steps, Step{Op: "dh_newsa_failsweep", Suite: &su, X: r.Bytes(32), Nonce: r.Bytes(16), Nonce2: r.Bytes(16),
				SpiI: r.U64(), SpiR: r.U64(), Rand: &RandScript{Seed: r.U64(), Chunk: Pick(r, 0, 7, 64, 255)}})
		}
	}
	return sc
}
