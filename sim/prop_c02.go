package main

import (
	"fmt"

	"ikesim/ref"
)

// ---------------------------------------------------------------------------
// C02 — tampered, truncated, spliced, cross-key or reflected SK messages are
// rejected; ciphertext never reaches the cipher before the checksum verified.
// ---------------------------------------------------------------------------

func init() {
	ops["sweep"] = opSweep
	sendHooks["C02"] = c02Send
	deliverHooks["C02"] = c02Deliver
	props["C02"] = &PropDef{
		ID: "C02", Level: "fault_enumeration",
		Gen:   genC02,
		Count: map[string]int{"quick": 8000, "thorough": 160000},
		Rule: "scenario = SA under test + two unrelated SAs (same suite, other suite), 2..6 genuine protected messages in both directions, then " +
			"corrupting deliveries: per message EVERY single-bit flip and EVERY proper prefix (fault enumeration; messages <= 220 octets in quick, " +
			"also long ones in thorough), SK body shrunk to every k in 0..ICV+40 with lengths repaired, first-payload type rewritten to all 256 values, " +
			"plus seeded extensions, multi-octet edits, splices of two genuine messages, IV/ICV/block swaps, cross-key and reflected deliveries; both " +
			"header modes, exact-capacity and poisoned-spare receive buffers, spy cipher/MAC objects in the public key fields. An evaluation is one " +
			"scenario; non-trivial = at least one delivered datagram differed from every genuine message of the receiver and reached DecodeDecrypt; " +
			"distinct = distinct abstract traces. corrupted_deliveries counts individual faulty datagrams delivered.",
		Components: defaultComponents,
	}
}

type gk struct {
	sa   int
	from string
	b    string
}

type c02State struct {
	genuine map[gk]bool
}

func c02st(w *World) *c02State {
	st, _ := w.ext["c02"].(*c02State)
	if st == nil {
		st = &c02State{genuine: map[gk]bool{}}
		w.ext["c02"] = st
	}
	return st
}

func gKey(sa int, from string, b []byte) gk { return gk{sa, from, string(b)} }

func c02Send(c *sendCtx) {
	if c.res.class() != "ok" || c.s.NilKey {
		return // C01's business
	}
	c02st(c.w).genuine[gKey(c.s.SA, c.s.From, c.out)] = true
}

func c02Deliver(c *deliverCtx) {
	w, d, s := c.w, c.d, c.s
	if d.NilKey || c.sa == nil {
		return
	}
	toSA := d.SA
	if s.ToSA != nil {
		toSA = *s.ToSA
	}
	// 1. never a panic
	if c.res.class() == "panic" {
		w.violate("panic", panicKey(c.res), "DecodeDecrypt panicked on a %s datagram: %s\n datagram %x", faultName(s), c.res.Panic, trunc(c.wire, 120))
		return
	}
	// 2. a datagram that is a genuine message for this receiver: no claim
	genuineHere := c02st(w).genuine[gKey(toSA, other(c.toRole), c.wire)]
	if genuineHere {
		w.stats.inc("c02_genuine_for_receiver")
		return
	}
	w.nontriv = true
	w.stats.inc("corrupted_deliveries")
	crossOrReflect := toSA != d.SA || c.toRole == d.From
	spy := c.res.Spy
	ok := c.res.class() == "ok"
	if ref.PresentsSK(c.wire) {
		// 3. must be refused
		if ok {
			kind := "accepted_forgery"
			if crossOrReflect && s.Fault == nil {
				kind = "accepted_crosskey_or_reflection"
			}
			w.violate(kind, faultName(s), "DecodeDecrypt accepted a %s datagram that is not a genuine message for this receiver (decoded %s)\n datagram %x",
				faultName(s), jsonOf(extract(c.msg)), trunc(c.wire, 120))
		}
	} else {
		// the exception: no Encrypted payload is presented -> plain handling, no key applied
		if len(c.wire) >= 28 && c.wire[16] != 46 {
			w.stats.inc("probe_first_payload_exception_taken")
		}
		if spy != nil && (spy.count("Decrypt")+spy.count("Encrypt")+spy.count("Write")+spy.count("Sum") > 0) {
			w.violate("key_applied_on_plain_path", faultName(s), "datagram presents no Encrypted payload, yet SA key objects were used: %s", spy)
		}
	}
	// 4. bytes that are not a genuine message for this receiver never reach the cipher
	// (a datagram with a VALID checksum made by a key holder legitimately does, even if malformed)
	authenticHere := d.Authentic && s.Fault == nil && toSA == d.SA && c.toRole != d.From
	if spy != nil && spy.count("Decrypt") > 0 && !authenticHere {
		w.violate("decrypt_before_verify", faultName(s), "cipher Decrypt was called on a %s datagram whose checksum cannot have verified: %s", faultName(s), spy)
	}
	if !ok {
		w.stats.inc("c02_rejected")
	}
}

func faultName(s *Step) string {
	n := "unmodified"
	if s.Fault != nil {
		n = s.Fault.Kind
	}
	if s.ToSA != nil {
		n += "+crosskey"
	}
	if s.To != "" {
		n += "+to" + s.To
	}
	return n
}

func trunc(b []byte, n int) []byte {
	if len(b) > n {
		return b[:n]
	}
	return b
}

// opSweep enumerates a family of single-fault deliveries of one datagram.
func opSweep(w *World, s *Step) (string, string) {
	d := w.dgram(s.Dgram)
	if d == nil {
		w.stats.inc("noop_missing_dgram")
		return "nodgram", "nodgram"
	}
	var faults []Fault
	n := len(d.Bytes)
	switch s.Sweep {
	case "bitflips":
		for i := 0; i < n; i++ {
			for b := 0; b < 8; b++ {
				faults = append(faults, Fault{Kind: "bitflip", Byte: i, Bit: b})
			}
		}
	case "prefixes":
		for l := 0; l < n; l++ {
			faults = append(faults, Fault{Kind: "truncate", Len: l})
		}
	case "skshrink":
		for _, v := range []int{0, 1, 2, 3, 4, 5, 7, 8, 15, 16, n - 28 - 1, n - 28 + 1, 65535} {
			faults = append(faults, Fault{Kind: "sklen", Val: v})
		}
		for _, v := range []int{0, 1, 27, 28, 29, n - 1, n + 1, 1 << 31} {
			faults = append(faults, Fault{Kind: "hdrlen", Val: v})
		}
		fill := NewRng(uint64(n) * 977).Bytes(40)
		for k := 0; k <= s.N && 32+k < n; k++ {
			faults = append(faults, Fault{Kind: "skshrink", Len: k})
			faults = append(faults, Fault{Kind: "skshrink_tail", Len: k})
			faults = append(faults, Fault{Kind: "skshort_unknown", Len: k, Val: 49 + k%200, Data: fill[:(k*7)%40]})
		}
	case "firsttype":
		for v := 0; v < 256; v++ {
			if n >= 28 && int(d.Bytes[16]) == v {
				continue
			}
			faults = append(faults, Fault{Kind: "firsttype", Val: v})
		}
	case "sknext":
		for v := 0; v < 256; v++ {
			faults = append(faults, Fault{Kind: "sknext", Val: v})
		}
	case "icvpairs":
		// two checksum octets altered together: the same bit flipped in both, and deltas adding up to 256
		for i := n - s.N; i >= 0 && i < n; i++ {
			for j := i + 1; j < n; j++ {
				for b := 0; b < 8; b++ {
					faults = append(faults, Fault{Kind: "edit2", Off: i, Val: j, Bit: 1 << uint(b), Len: 1 << uint(b)})
				}
				faults = append(faults, Fault{Kind: "edit2", Off: i, Val: j, Bit: 0x40, Len: 0xc0}, Fault{Kind: "edit2", Off: i, Val: j, Bit: 0x01, Len: 0xff})
			}
		}
	default:
		return "badsweep", "badsweep"
	}
	lo, hi := s.From_, len(faults)
	if s.To_ > 0 && s.To_ < hi {
		hi = s.To_
	}
	counts := map[string]int{}
	for i := lo; i < hi; i++ {
		f := faults[i]
		sub := Step{Op: "deliver", Dgram: s.Dgram, To: s.To, ToSA: s.ToSA, Obj: s.Obj, Rx: s.Rx, Fault: &f}
		w.pendingExpand = &sub
		obs, _ := opDeliver(w, &sub)
		w.pendingExpand = nil
		w.stats.inc("events")
		counts[obs]++
	}
	w.stats.inc("sweep_" + s.Sweep)
	out := fmt.Sprintf("%s:n=%d:ok=%d:err=%d:panic=%d", s.Sweep, hi-lo, counts["ok"], counts["err"], counts["panic"])
	suite := ""
	if sa := w.sa(d.SA); sa != nil {
		suite = sa.Suite.String()
	}
	return out, fmt.Sprintf("%s:%s:%s:ok=%d:panic=%d", s.Sweep, suite, d.From, counts["ok"], counts["panic"])
}

// craftSATail: an SA-typed generic payload whose innermost length fields sit at their boundaries
// (transform length 8..12, TLV attribute lengths near 0 and near 2^16), every enclosing length
// repaired, ending exactly at the end of the datagram. Parsed - before authentication - when the
// genuine message's first inner payload is an SA (the SK header then announces type 33).
func craftSATail(r *Rng) Hex {
	tl := Pick(r, 8, 9, 10, 11, 12, 13, 16)
	tr := make([]byte, tl)
	tr[0], tr[4] = 0, Pick[uint8](r, 1, 2, 3, 4, 5)
	tr[2], tr[3] = byte(tl>>8), byte(tl)
	tr[6], tr[7] = 0, 12
	if tl > 8 {
		tr[8] = Pick[uint8](r, 0x00, 0x80, 0x00) // attribute format bit
	}
	if tl > 9 {
		tr[9] = 14
	}
	if tl >= 12 {
		al := Pick(r, 0, 1, tl-12, tl-11, 65533, 65532, 65535, 65531)
		tr[10], tr[11] = byte(al>>8), byte(al)
	} else if tl == 11 {
		tr[10] = Pick[uint8](r, 0, 0xff)
	}
	spi := r.Bytes(Pick(r, 0, 0, 4, 8))
	pl := 8 + len(spi) + tl
	prop := append([]byte{0, 0, byte(pl >> 8), byte(pl), 1, Pick[uint8](r, 1, 3), byte(len(spi)), 1}, spi...)
	prop = append(prop, tr...)
	if r.Chance(1, 4) { // a well-formed transform before the odd one
		good := []byte{3, 0, 0, 8, 3, 0, 0, 2}
		pl += 8
		prop = append([]byte{0, 0, byte(pl >> 8), byte(pl), 1, 1, byte(len(spi)), 2}, spi...)
		prop = append(prop, good...)
		prop = append(prop, tr...)
	}
	l := 4 + len(prop)
	return append([]byte{0, 0, byte(l >> 8), byte(l)}, prop...)
}

func genTail(r *Rng) Hex {
	switch r.Intn(6) {
	case 0:
		return r.Bytes(r.Range(1, 40))
	case 1: // well-formed generic payload, last in chain
		body := r.Bytes(r.Intn(24))
		l := 4 + len(body)
		return append([]byte{0, 0, byte(l >> 8), byte(l)}, body...)
	case 2: // critical bit set
		body := r.Bytes(r.Intn(24))
		l := 4 + len(body)
		return append([]byte{0, 0x80, byte(l >> 8), byte(l)}, body...)
	case 3: // chain of two, first names an unsupported type for the second
		b1 := r.Bytes(r.Intn(8))
		l1 := 4 + len(b1)
		t := append([]byte{Pick[uint8](r, 1, 32, 49, 200), 0, byte(l1 >> 8), byte(l1)}, b1...)
		b2 := r.Bytes(r.Intn(8))
		l2 := 4 + len(b2)
		return append(t, append([]byte{0, 0, byte(l2 >> 8), byte(l2)}, b2...)...)
	case 4: // a second SK payload header
		body := r.Bytes(r.Range(16, 64))
		l := 4 + len(body)
		return append([]byte{46, 0, byte(l >> 8), byte(l)}, body...)
	}
	return r.Bytes(r.Range(1, 4))
}

func genC02(r *Rng, idx int, tier string) *Scenario {
	sc := &Scenario{}
	su := suiteByIndex(idx)
	su.Prf, su.DH = Pick(r, prfNames...), 2
	icv := su.refInteg().ICVLen
	sc.Steps = append(sc.Steps, genSAStep(r, 0, su, "direct", "direct", "kdf"))
	sc.Steps = append(sc.Steps, genSAStep(r, 1, su, "direct")) // unrelated keys, same suite
	su2 := suiteByIndex(idx + 1 + r.Intn(8))
	su2.Prf, su2.DH = su.Prf, 2
	sc.Steps = append(sc.Steps, genSAStep(r, 2, su2, "direct")) // unrelated keys, other suite
	nmsg := r.Range(2, 6)
	var froms []string
	var msgs []*MsgSpec
	long := tier == "thorough" && r.Chance(1, 12)
	for i := 0; i < nmsg; i++ {
		var m *MsgSpec
		if long && i == 0 {
			cfg := GenCfg{MaxPayloads: 6, SizeClass: 1, MaxInner: 3000, Kinds: allKinds}
			m = genMsg(r, &cfg)
		} else {
			for {
				m = genSimpleMsg(r, 3)
				if m.innerSize() <= 150 {
					break
				}
			}
			if r.Chance(1, 6) { // IKE_SA_INIT / CREATE_CHILD_SA style: an SA payload comes first
				c2 := GenCfg{SizeClass: 0}
				m.Payloads = append([]PayloadSpec{genPayload(r, &c2, "SA")}, m.Payloads...)
				if len(m.Payloads) > 2 {
					m.Payloads = m.Payloads[:2]
				}
			}
		}
		from := Pick(r, "I", "R")
		if i == 0 {
			from = []string{"I", "R"}[(idx/9)%2]
		}
		froms = append(froms, from)
		msgs = append(msgs, m)
		sc.Steps = append(sc.Steps, Step{Op: "send", SA: 0, Dgram: i, From: from, Msg: m, Rand: &RandScript{Seed: r.U64()}})
	}
	rx := func() *RxOpts {
		o := genRx(r)
		o.Redeliver = r.Chance(1, 5)
		return o
	}
	// history: in half of the scenarios the receiver objects have already unprotected the genuine messages
	if r.Bool() {
		for i := 0; i < nmsg; i++ {
			if r.Chance(2, 3) {
				sc.Steps = append(sc.Steps, Step{Op: "deliver", Dgram: i, Rx: genRx(r), Obj: "long"})
			}
		}
	}
	obj := func() string { return Pick(r, "long", "long", "twin") }
	// exhaustive families on the first message (and sometimes a second)
	targets := []int{0}
	if r.Chance(1, 3) {
		targets = append(targets, 1)
	}
	for _, t := range targets {
		rxo := rx()
		if t == 0 {
			rxo.PreHdr = (idx/18)%2 == 0
		}
		sc.Steps = append(sc.Steps,
			Step{Op: "sweep", Sweep: "bitflips", Dgram: t, Rx: rxo, Obj: obj()},
			Step{Op: "sweep", Sweep: "prefixes", Dgram: t, Rx: rx(), Obj: obj()},
			Step{Op: "sweep", Sweep: "skshrink", Dgram: t, N: icv + 40, Rx: rx(), Obj: obj()},
			Step{Op: "sweep", Sweep: "firsttype", Dgram: t, Rx: rx(), Obj: obj()},
		)
		if r.Chance(1, 2) {
			sc.Steps = append(sc.Steps, Step{Op: "sweep", Sweep: "sknext", Dgram: t, Rx: rx(), Obj: obj()})
		}
		if r.Chance(1, 3) {
			sc.Steps = append(sc.Steps, Step{Op: "sweep", Sweep: "icvpairs", Dgram: t, N: icv, Rx: rx(), Obj: obj()})
		}
	}
	// authentic but malformed: valid checksum, impossible pad length / IV only / misaligned / too short
	for k := r.Intn(3); k > 0; k-- {
		id := nmsg + 10 + k
		from := Pick(r, "I", "R")
		sc.Steps = append(sc.Steps, Step{Op: "ref_send_malformed", SA: 0, Dgram: id, From: from, Src: Pick(r, "badpad", "ivonly", "misaligned", "shortbody", "badinner", "innerlen"), SpiI: r.U64()},
			Step{Op: "deliver", Dgram: id, Rx: rx(), Obj: obj()})
	}
	// seeded single faults
	nf := r.Range(10, 60)
	for i := 0; i < nf; i++ {
		dg := r.Intn(nmsg)
		st := Step{Op: "deliver", Dgram: dg, Rx: rx(), Obj: obj()}
		switch r.Intn(17) {
		case 16: // the genuine datagram is accepted, then a copy corrupted in a way weak checksums do not notice arrives
			st.Obj = Pick(r, "long", "long", "peer")
			sc.Steps = append(sc.Steps, Step{Op: "deliver", Dgram: dg, Rx: rx(), Obj: st.Obj})
			st.Fault = genChecksumPreserving(r, Pick(r, 76, 76, 120))
		case 14, 15: // format-aware extension: a (mutated) valid payload of the type the SK header announces
			m := msgs[dg]
			if len(m.Payloads) == 0 {
				st.Fault = &Fault{Kind: "extend", Data: genTail(r)}
				break
			}
			if m.Payloads[0].Kind == "SA" && r.Chance(1, 2) {
				st.Fault = &Fault{Kind: Pick(r, "extend", "extend_fix"), Data: craftSATail(r)}
				st.Rx.Spare = Pick(r, 0, 0, 16)
				break
			}
			cfg := GenCfg{SizeClass: Pick(r, 0, 1), Corner: 10}
			pl := genPayload(r, &cfg, m.Payloads[0].Kind)
			f := &Fault{Kind: "extend_payload", Pl: &pl, Val: r.Intn(2)}
			for k := r.Intn(4); k > 0; k-- {
				f.Edits = append(f.Edits, Pick(r, r.Intn(16), r.Intn(64), r.Intn(400)), Pick(r, 0, 1, 3, 4, 7, 8, 255, 128, r.Intn(256)))
			}
			if r.Chance(1, 3) {
				f.Len = Pick(r, 4, 5, 7, 8, 9, 11, 12, r.Range(4, 60))
			}
			st.Fault = f
		case 0:
			st.Fault = &Fault{Kind: "extend", Data: genTail(r)}
		case 1:
			st.Fault = &Fault{Kind: "extend_fix", Data: genTail(r)}
		case 2:
			st.Fault = &Fault{Kind: "edit", Off: r.Intn(60 + r.Intn(100)), Data: r.Bytes(r.Range(1, 8))}
		case 3:
			st.Fault = &Fault{Kind: "splice", With: r.Intn(nmsg), Off: Pick(r, 28, 32, 48, 64, r.Intn(120))}
		case 4:
			st.Fault = &Fault{Kind: "splice_fix", With: r.Intn(nmsg), Off: Pick(r, 28, 32, 48, 64, r.Intn(120))}
		case 5:
			st.Fault = &Fault{Kind: "skflags", Val: Pick(r, 0x80, 0x01, 0x7f, 0xff, 0x40)}
		case 6:
			st.Fault = &Fault{Kind: "iv", Data: r.Bytes(16)}
		case 7:
			st.Fault = &Fault{Kind: "icvswap", With: r.Intn(nmsg), Len: icv}
		case 8:
			st.Fault = &Fault{Kind: "blockswap", Off: r.Intn(4), Val: r.Intn(4)}
		case 9: // cross-key, same suite
			one := 1
			st.ToSA = &one
			st.To = Pick(r, "", "I", "R")
		case 10: // cross-key, other suite
			two := 2
			st.ToSA = &two
			st.To = Pick(r, "", "I", "R")
		case 11: // reflection
			st.To = froms[dg]
			st.Obj = Pick(r, "long", "peer", "twin")
		case 12: // two faults compose: splice then flip is expressed as garbage
			st.Fault = &Fault{Kind: "garbage", Data: r.Bytes(r.Range(0, 80))}
			if len(st.Fault.Data) >= 28 && r.Bool() {
				st.Fault.Data[16] = 46
			}
		case 13:
			if r.Bool() {
				st.Fault = &Fault{Kind: "truncate", Len: r.Intn(200)}
			} else {
				st.Fault = &Fault{Kind: "prepend", Data: Pick(r, Hex{0, 0, 0, 0}, Hex{0xff}, Hex{0, 0, 0, 0, 0, 0, 0, 0}, r.Bytes(r.Range(1, 28)))}
			}
		}
		sc.Steps = append(sc.Steps, st)
	}
	return sc
}
