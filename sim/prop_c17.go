package main

import (
	"fmt"

	"github.com/free5gc/ike/security"

	"ikesim/ref"
)

// ---------------------------------------------------------------------------
// C17 — SA key objects are reusable: after any history, each operation on the
// long-lived object behaves as on a freshly built object holding the same keys.
// Model-based and relative: the reference model is "fresh twin, this one
// operation"; only differences from the twin are flagged.
// ---------------------------------------------------------------------------

// opRefSendMalformed: a holder of the keys (the reference peer) emits a datagram whose checksum is
// valid but whose Encrypted payload is malformed: impossible pad length, IV only, misaligned or
// shorter than an IV. It must be refused - and must leave the receiving object as usable as before.
func opRefSendMalformed(w *World, s *Step) (string, string) {
	sa := w.sa(s.SA)
	if sa == nil {
		w.stats.inc("noop_missing_sa")
		return "nosa", "nosa"
	}
	r := NewRng(s.SpiI ^ 0xbad)
	enc, ik := dirKeys(sa, s.From)
	ig := sa.Suite.refInteg()
	var body []byte
	switch s.Src {
	case "badpad":
		pt := r.Bytes(16 * r.Range(1, 3))
		pt[len(pt)-1] = byte(len(pt) + r.Intn(255-len(pt)+1))
		iv := r.Bytes(16)
		ct, err := ref.CBCEncrypt(enc, iv, pt)
		if err != nil {
			return "referr", "referr"
		}
		body = append(iv, ct...)
	case "badinner", "innerlen":
		// decrypts and un-pads fine, but the inner chain does not parse: an unknown CRITICAL payload,
		// or an inner payload length pointing past the plaintext
		inner := []byte{0, 0x80, 0, 8, 1, 2, 3, 4}
		if s.Src == "innerlen" {
			inner = []byte{0, 0, 0, 200, 9, 9, 9, 9}
		}
		padn := (16 - (len(inner)+1)%16) % 16
		pt := append(append(inner, r.Bytes(padn)...), byte(padn))
		iv := r.Bytes(16)
		ct, err := ref.CBCEncrypt(enc, iv, pt)
		if err != nil {
			return "referr", "referr"
		}
		body = append(iv, ct...)
	case "ivonly":
		body = r.Bytes(16)
	case "misaligned":
		body = r.Bytes(16 + 16*r.Intn(2) + r.Range(1, 15))
	case "shortbody":
		body = r.Bytes(r.Intn(16))
	default:
		return "badkind", "badkind"
	}
	skLen := 4 + len(body) + ig.ICVLen
	h := ref.Header{SPIi: r.U64(), SPIr: r.U64(), Major: 2, Exchange: 37, Flags: 8, MessageID: r.U32()}
	d := h.Bytes(46, 28+skLen)
	first := Pick[uint8](r, 0, 40, 41)
	if s.Src == "badinner" {
		first = Pick[uint8](r, 200, 49, 1) // unknown type, critical flag set inside
	} else if s.Src == "innerlen" {
		first = 40
	}
	d = append(d, first, 0, byte(skLen>>8), byte(skLen))
	d = append(d, body...)
	d = append(d, ig.ICV(ik, d)...)
	w.dgrams[s.Dgram] = &Dgram{SA: s.SA, From: s.From, Bytes: d, Spec: &MsgSpec{}, Authentic: true}
	w.stats.inc("fault_authentic_but_malformed_" + s.Src)
	return "ok:" + s.Src, s.Src
}

func init() {
	ops["ref_send_malformed"] = opRefSendMalformed
	sendHooks["C17"] = c17Send
	deliverHooks["C17"] = c17Deliver
	finals["C17"] = c17Epilogue
	props["C17"] = &PropDef{
		ID: "C17", Level: "exploration",
		Gen:   genC17,
		Count: map[string]int{"quick": 100000, "thorough": 2000000},
		Rule: "scenario = one SA (9 suites stratified) with one long-lived IKESAKey per endpoint and a history of up to 64 (thorough: 512) operations " +
			"from {protect as either role, unprotect genuine (made by the long-lived peer, by a fresh peer), unprotect tampered / truncated / garbage / " +
			"cross-key / reflected, derive Child SA, protect with the random source failing at read k, pre-parsed header or not, the same object serving " +
			"both roles}; swarm-varied mixes. Each operation is repeated on a fresh twin built from the same SK_* bytes and the outcome classes are " +
			"compared (protect: error?, accepted by a fresh peer?, decoded spec; unprotect: accept/error/panic + decoded spec; derive: the four keys). " +
			"Every scenario ends with a fault-free epilogue (one genuine message each way + one derivation) that must succeed at once. Non-trivial = " +
			"history of >= 3 operations on one object including at least one rejected or failed operation before a compared one; distinct = distinct abstract traces.",
		Components: defaultComponents,
	}
}

type c17State struct {
	opsOn map[string]int // operations so far per long-lived object ("sa/side")
	negOn map[string]int // rejected / failed operations so far per object
	saIDs []int
}

func c17st(w *World) *c17State {
	st, _ := w.ext["c17"].(*c17State)
	if st == nil {
		st = &c17State{opsOn: map[string]int{}, negOn: map[string]int{}}
		w.ext["c17"] = st
	}
	return st
}

func (st *c17State) note(w *World, sa int, sd string, negative bool) {
	k := fmt.Sprintf("%d/%s", sa, sd)
	if st.opsOn[k] >= 2 && st.negOn[k] >= 1 {
		w.nontriv = true
		w.stats.inc("probe_operation_compared_after_a_rejected_or_failed_one")
	}
	if st.opsOn[k] == 32 {
		w.stats.inc("probe_object_history_reached_32_operations")
	}
	if st.opsOn[k] == 256 {
		w.stats.inc("probe_object_history_reached_256_operations")
	}
	st.opsOn[k]++
	if negative {
		st.negOn[k]++
	}
}

// acceptance: what a fresh peer makes of a datagram.
func freshAccept(sa *SA, wire []byte, toRole string) (string, *MsgSpec) {
	peer, err := newKeyObj(sa.Suite, sa.Keys)
	if err != nil {
		return "nokey", nil
	}
	m, res := unprotect(rxBuffer(wire, 0), peer, toRole, false)
	if res.class() != "ok" {
		return res.class(), nil
	}
	return "ok", extract(m)
}

func c17Send(c *sendCtx) {
	w, s, sa := c.w, c.s, c.sa
	if s.NilKey || sa == nil {
		return
	}
	obj := s.Obj
	if obj == "twin" {
		return // made by a fresh peer: nothing long-lived was used
	}
	sd := s.From
	if obj == "peer" {
		sd = other(s.From)
	}
	st := c17st(w)
	fired := c.res.RandSt.fired
	defer st.note(w, s.SA, sd, fired || c.res.class() != "ok")
	// the same operation on a fresh twin, same random-source script
	twinKey, err := newKeyObj(sa.Suite, sa.Keys)
	if err != nil {
		return
	}
	tmsg, err := s.Msg.build()
	if err != nil {
		return
	}
	tout, tres := protect(tmsg, twinKey, s.From, s.Rand)
	if c.retried {
		tout, tres = protect(tmsg, twinKey, s.From, &RandScript{Seed: s.Rand.Seed ^ 0x7e7e})
		fired = false
	}
	what := "protect"
	if fired {
		// tolerance: an operation in which an injected failure fired may fail, and must then produce no datagram
		if c.res.class() == "ok" || c.out != nil {
			if tres.class() != "ok" { // the twin failed, the long-lived object did not: a difference
				w.violate("protect_differs_from_fresh", what, "random source failed: fresh object returned %s, long-lived object produced a datagram", tres.class())
			}
		}
		return
	}
	if c.res.class() != tres.class() {
		w.violate("protect_differs_from_fresh", what, "protect on the long-lived object: %s (%v %s); on a fresh object with the same keys: %s (%v)",
			c.res.class(), c.res.Err, c.res.Panic, tres.class(), tres.Err)
		return
	}
	if c.res.class() != "ok" {
		return
	}
	la, ls := freshAccept(sa, c.out, other(s.From))
	ta, ts := freshAccept(sa, tout, other(s.From))
	if la != ta || (la == "ok" && !specEqual(ls, ts)) {
		w.violate("protect_differs_from_fresh", what, "a fresh peer %s the datagram made by the long-lived object but %s the one made by a fresh object (same message, same keys, same random stream)",
			verdict(la), verdict(ta))
	}
	w.stats.inc("c17_protect_compared")
}

func verdict(a string) string {
	if a == "ok" {
		return "accepts"
	}
	return "rejects (" + a + ")"
}

func c17Deliver(c *deliverCtx) {
	w, s, sa := c.w, c.s, c.sa
	if sa == nil || s.Obj == "twin" {
		return
	}
	sd := c.toRole
	if s.Obj == "peer" {
		sd = other(c.toRole)
	}
	st := c17st(w)
	defer st.note(w, saIDOf(c), sd, c.res.class() != "ok")
	twinKey, err := newKeyObj(sa.Suite, sa.Keys)
	if err != nil {
		return
	}
	rx := RxOpts{}
	if s.Rx != nil {
		rx = *s.Rx
	}
	tm, tres := unprotect(rxBuffer(c.wire, rx.Spare), twinKey, c.toRole, rx.PreHdr)
	kind := "genuine"
	if c.d.Authentic {
		kind = "authentic_malformed"
	} else if c.faulty {
		kind = s.Fault.Kind
	} else if c.toRole == c.d.From {
		kind = "reflected"
	} else if s.ToSA != nil {
		kind = "crosskey"
	}
	what := "unprotect/" + kind
	if c.res.class() != tres.class() {
		w.violate("unprotect_differs_from_fresh", what, "unprotecting a %s datagram on the long-lived object: %s (%v %s); on a fresh object with the same keys: %s (%v %s)",
			kind, c.res.class(), c.res.Err, c.res.Panic, tres.class(), tres.Err, tres.Panic)
		return
	}
	if c.res.class() == "ok" && !specEqual(extract(c.msg), extract(tm)) {
		w.violate("unprotect_differs_from_fresh", what, "the long-lived object and a fresh object decode a %s datagram to different messages", kind)
	}
	w.stats.inc("c17_unprotect_compared")
	if c.res.class() != "ok" {
		w.stats.inc("c17_rejections_compared")
	}
}

func saIDOf(c *deliverCtx) int {
	if c.s.ToSA != nil {
		return *c.s.ToSA
	}
	return c.d.SA
}

func c17Child(w *World, s *Step, sa *SA, got *childKeys, res *callResult) {
	sd := s.Side
	if sd == "" {
		sd = "I"
	}
	st := c17st(w)
	defer st.note(w, s.SA, sd, res.class() != "ok")
	fresh, err := newKeyObj(sa.Suite, sa.Keys)
	if err != nil {
		return
	}
	tw, tres := deriveChild(s, fresh)
	what := "derive"
	if res.class() != tres.class() {
		w.violate("derive_differs_from_fresh", what, "Child SA derivation on the long-lived object: %s (%v %s); on a fresh object: %s", res.class(), res.Err, res.Panic, tres.class())
		return
	}
	if res.class() == "ok" && got.hash() != tw.hash() {
		w.violate("derive_differs_from_fresh", what, "Child SA keys derived on the long-lived object differ from those derived on a fresh object with the same SK_d")
	}
	w.stats.inc("c17_derive_compared")
}

// c17Epilogue: bounded liveness - once faults stop, the next operation on the
// long-lived objects is served at once (whenever it is on fresh objects).
func c17Epilogue(w *World) {
	sa := w.sa(0)
	if sa == nil {
		return
	}
	r := NewRng(fnv1a(0, sa.Keys.SKd) ^ uint64(w.step))
	for _, from := range []string{"I", "R"} {
		spec := genSimpleMsg(r, 2)
		// on fresh objects
		fk, err1 := newKeyObj(sa.Suite, sa.Keys)
		fm, err2 := spec.build()
		if err1 != nil || err2 != nil {
			continue
		}
		rs := &RandScript{Seed: r.U64()}
		fout, fres := protect(fm, fk, from, rs)
		if fres.class() != "ok" {
			continue
		}
		fa, _ := freshAccept(sa, fout, other(from))
		if fa != "ok" {
			continue
		}
		// on the long-lived objects: sender object protects, receiver object unprotects
		lm, _ := spec.build()
		lout, lres := protect(lm, sa.Obj[side(from)], from, rs)
		if lres.class() != "ok" {
			w.violate("epilogue_not_served", "protect", "after the history, a fault-free protect as %s on the long-lived object fails (%s %v %s) although it succeeds on fresh objects",
				from, lres.class(), lres.Err, lres.Panic)
			continue
		}
		m, ures := unprotect(rxBuffer(lout, 0), sa.Obj[side(other(from))], other(from), false)
		if ures.class() != "ok" {
			w.violate("epilogue_not_served", "unprotect", "after the history, the long-lived %s object rejects a genuine fault-free message (%s %v %s)",
				other(from), ures.class(), ures.Err, ures.Panic)
			continue
		}
		if la, _ := freshAccept(sa, lout, other(from)); la != "ok" {
			w.violate("epilogue_not_served", "protect", "after the history, a message protected by the long-lived %s object is rejected by a fresh peer (%s)", from, la)
		}
		if m2, r2 := unprotect(rxBuffer(fout, 0), sa.Obj[side(other(from))], other(from), true); r2.class() != "ok" || !specEqual(extract(m2), spec) {
			w.violate("epilogue_not_served", "unprotect", "after the history, the long-lived %s object does not accept a genuine message from a fresh peer (%s)", other(from), r2.class())
		}
		_ = m
		w.stats.inc("c17_epilogue_messages")
	}
	for _, sd := range []string{"I", "R"} {
		st := &Step{Op: "child", SA: 0, Side: sd, ChildEncr: 32, ChildInteg: "sha1", Nonce: r.Bytes(32)}
		fresh, err := newKeyObj(sa.Suite, sa.Keys)
		if err != nil {
			continue
		}
		tw, tres := deriveChild(st, fresh)
		if tres.class() != "ok" {
			continue
		}
		got, res := deriveChild(st, sa.Obj[side(sd)])
		if res.class() != "ok" || got.hash() != tw.hash() {
			w.violate("epilogue_not_served", "derive", "after the history, a Child SA derivation on the long-lived %s object fails or differs (%s)", sd, res.class())
		}
		w.stats.inc("c17_epilogue_derivations")
	}
}

var _ = security.GenerateRandomUint8

func genC17(r *Rng, idx int, tier string) *Scenario {
	sc := &Scenario{}
	su := suiteByIndex(idx)
	su.Prf, su.DH = Pick(r, prfNames...), 2
	sc.Steps = append(sc.Steps, genSAStep(r, 0, su, "direct", "direct", "kdf"))
	if r.Chance(1, 3) {
		sc.Steps = append(sc.Steps, genSAStep(r, 1, su, "direct")) // unrelated keys for cross-key deliveries
	}
	max := 64
	if tier == "thorough" && r.Chance(1, 10) {
		max = 512
	}
	n := Pick(r, 3, 6, 12, 24, 48, max)
	// swarm: operation mix
	wProtect, wGenuine, wForged, wDerive, wFail := r.Range(1, 6), r.Range(1, 6), r.Range(0, 8), r.Range(0, 4), r.Range(0, 4)
	switch r.Intn(5) {
	case 0:
		wForged = 12 // forgery-heavy
	case 1:
		wDerive = 10
	case 2:
		wFail = 8 // a failing protect between good ones
	}
	total := wProtect + wGenuine + wForged + wDerive + wFail
	next := 0
	var sent []int
	var froms []string
	send := func(obj string, fail bool) {
		id := next
		next++
		st := Step{Op: "send", SA: 0, Dgram: id, From: Pick(r, "I", "R"), Msg: genSimpleMsg(r, 3), Rand: &RandScript{Seed: r.U64()}, Obj: obj}
		if r.Chance(1, 8) {
			st.Rand.Chunk = Pick(r, 1, 3, 7)
		}
		if fail {
			st.Retry = r.Chance(1, 3)
			st.Rand.FailAt, st.Rand.FailMode = r.Range(1, 2), Pick(r, "err", "eof", "partial")
			if r.Chance(1, 3) {
				st.Rand.Chunk = Pick(r, 1, 4)
				st.Rand.FailAt = r.Range(1, 12)
			}
		}
		sc.Steps = append(sc.Steps, st)
		sent = append(sent, id)
		froms = append(froms, st.From)
	}
	burstAt, burstLen := -1, 0
	if r.Chance(1, 6) {
		burstAt, burstLen = r.Intn(n), Pick(r, 15, 16, 17, 32, 40)
	}
	soakAt := -1
	if idx%999 == 998 {
		soakAt = r.Intn(n) // a long-lived SA: more than 2^16 operations of one kind in a row somewhere in the history
	}
	for i := 0; i < n; i++ {
		x := r.Intn(total)
		if i == soakAt {
			if len(sent) == 0 {
				send("twin", false)
			}
			k := r.Intn(len(sent))
			cnt := 1<<16 + r.Intn(40)
			switch r.Intn(3) {
			case 0: // flood of forgeries, no genuine message in between
				sc.Steps = append(sc.Steps, Step{Op: "deliver", Dgram: sent[k], To: other(froms[k]), Obj: "long", N: cnt,
					Fault: &Fault{Kind: "bitflip", Byte: 28 + r.Intn(30), Bit: r.Intn(8)}})
			case 1: // the same genuine datagram again and again (retransmissions)
				sc.Steps = append(sc.Steps, Step{Op: "deliver", Dgram: sent[k], To: other(froms[k]), Obj: "long", N: cnt})
			default: // a busy sender
				id := next
				next++
				sc.Steps = append(sc.Steps, Step{Op: "send", SA: 0, Dgram: id, From: Pick(r, "I", "R"), Msg: genSimpleMsg(r, 2), Rand: &RandScript{Seed: r.U64()}, Obj: "long", N: cnt})
				sent = append(sent, id)
				froms = append(froms, sc.Steps[len(sc.Steps)-1].From)
			}
			continue
		}
		if i == burstAt && burstLen > 0 {
			// a run of consecutive forgeries with no accepted message in between (lock-out counters)
			if len(sent) == 0 {
				send("twin", false)
			}
			k := r.Intn(len(sent))
			role := other(froms[k])
			for b := 0; b < burstLen; b++ {
				sc.Steps = append(sc.Steps, Step{Op: "deliver", Dgram: sent[k], To: role, Rx: genRx(r), Obj: "long",
					Fault: &Fault{Kind: "bitflip", Byte: 28 + r.Intn(30), Bit: r.Intn(8)}})
			}
			sc.Steps = append(sc.Steps, Step{Op: "deliver", Dgram: sent[k], To: role, Rx: genRx(r), Obj: "long"})
			continue
		}
		switch {
		case x < wProtect:
			send(Pick(r, "long", "long", "long", "peer"), false)
		case x < wProtect+wGenuine:
			if len(sent) == 0 || r.Chance(1, 3) {
				send(Pick(r, "twin", "long"), false)
			}
			id := sent[r.Intn(len(sent))]
			sc.Steps = append(sc.Steps, Step{Op: "deliver", Dgram: id, Rx: genRx(r), Obj: Pick(r, "long", "long", "long", "peer")})
		case x < wProtect+wGenuine+wForged:
			if len(sent) == 0 {
				send("twin", false)
			}
			k := r.Intn(len(sent))
			st := Step{Op: "deliver", Dgram: sent[k], Rx: genRx(r), Obj: Pick(r, "long", "long", "peer")}
			switch r.Intn(10) {
			case 8, 9: // authentic but malformed: only a key holder can make it
				id := next
				next++
				from := Pick(r, "I", "R")
				sc.Steps = append(sc.Steps, Step{Op: "ref_send_malformed", SA: 0, Dgram: id, From: from, Src: Pick(r, "badpad", "badpad", "ivonly", "misaligned", "shortbody", "badinner", "innerlen"), SpiI: r.U64()})
				st = Step{Op: "deliver", Dgram: id, Rx: genRx(r), Obj: Pick(r, "long", "long", "peer")}
			case 0:
				st.Fault = &Fault{Kind: "bitflip", Byte: r.Intn(140), Bit: r.Intn(8)}
			case 1:
				// the genuine datagram was accepted a moment ago; a copy corrupted in a way weak checksums miss follows
				sc.Steps = append(sc.Steps, Step{Op: "deliver", Dgram: sent[k], Rx: genRx(r), Obj: st.Obj})
				st.Fault = genChecksumPreserving(r, 76)
			case 2:
				st.Fault = &Fault{Kind: "truncate", Len: Pick(r, 0, 27, 28, 31, 32, 48, r.Intn(140))}
			case 3:
				st.Fault = &Fault{Kind: "garbage", Data: r.Bytes(r.Range(1, 120))}
			case 4:
				st.Fault = &Fault{Kind: "skshrink", Len: r.Intn(60)}
			case 5:
				st.Fault = &Fault{Kind: "extend", Data: genTail(r)}
			case 6: // reflected
				st.To = froms[k]
			case 7: // cross-key
				one := 1
				st.ToSA = &one
			}
			sc.Steps = append(sc.Steps, st)
		case x < wProtect+wGenuine+wForged+wDerive:
			sc.Steps = append(sc.Steps, genChildStep(r, 0))
		default:
			send("long", true)
		}
	}
	return sc
}
