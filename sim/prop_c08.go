package main

import (
	"bytes"
	"fmt"

	"github.com/free5gc/ike/message"
	"github.com/free5gc/ike/security"

	"ikesim/ref"
)

// ---------------------------------------------------------------------------
// C08 — Child SA keying material follows RFC 7296 §2.17, for the first or the
// hundredth derivation on one long-lived IKE SA object.
// ---------------------------------------------------------------------------

func c08Final(w *World) {
	hk, _ := w.ext["c08_held"].([]heldVal)
	for _, h := range hk {
		if !bytes.Equal(h.buf, h.snap) {
			w.violate("child_keys_changed_later", h.what, "Child SA keys derived at step %d changed after later operations on the IKE SA", h.step)
			return
		}
	}
}

func init() {
	finals["C08"] = c08Final
	ops["child"] = opChild
	ops["prf_d_use"] = opPrfDUse
	props["C08"] = &PropDef{
		ID: "C08", Level: "exploration",
		Gen:   genC08,
		Count: map[string]int{"quick": 150000, "thorough": 3000000},
		Rule: "scenario = one IKE SA (PRF stratified, installed directly from raw keys or through the KDF) and a history of up to 64 (thorough: 300) " +
			"steps on its two long-lived key objects: Child SA derivations (ChildSAKey built directly or by NewChildSAKeyByProposal; 3 ESP key sizes x " +
			"{none, MD5-96, SHA1-96, SHA2-256-128}; nonces 0..512 octets) interleaved with protect/unprotect traffic, rejected forgeries and protect " +
			"calls whose random source fails. Oracle after every derivation: the four keys == reference prf+(SK_d, Ni|Nr) slices (RFC lengths) and == " +
			"the keys a fresh IKE SA object built from the same SK_* bytes derives. Non-trivial = a derivation that was not the first use of that " +
			"key object; distinct = distinct abstract traces.",
		Components: defaultComponents,
	}
}

func refIntegKeyLen(name string) int {
	switch name {
	case "md5":
		return ref.IntegMD5.KeyLen
	case "sha1":
		return ref.IntegSHA1.KeyLen
	case "sha256":
		return ref.IntegSHA256.KeyLen
	}
	return 0
}

func refIntegID(name string) uint16 {
	switch name {
	case "md5":
		return ref.IntegMD5.ID
	case "sha1":
		return ref.IntegSHA1.ID
	}
	return ref.IntegSHA256.ID
}

// newChild builds the ChildSAKey the step asks for.
func newChild(s *Step) (*security.ChildSAKey, error) {
	if s.ViaProp && s.ChildInteg != "" {
		var sa message.SecurityAssociation
		p := sa.Proposals.BuildProposal(1, 3, []byte{1, 2, 3, 4})
		at := uint16(14)
		bits := uint16(s.ChildEncr * 8)
		p.EncryptionAlgorithm.BuildTransform(1, 12, &at, &bits, nil)
		p.IntegrityAlgorithm.BuildTransform(3, refIntegID(s.ChildInteg), nil, nil, nil)
		p.ExtendedSequenceNumbers.BuildTransform(5, uint16(len(s.Nonce)%2), nil, nil, nil) // ESN off / on
		return security.NewChildSAKeyByProposal(p)
	}
	c := &security.ChildSAKey{EncrKInfo: libEncrK(s.ChildEncr)}
	if c.EncrKInfo == nil {
		return nil, fmt.Errorf("library has no ESP AES-CBC-%d", s.ChildEncr*8)
	}
	if s.ChildInteg != "" {
		c.IntegKInfo = libIntegK(s.ChildInteg)
		if c.IntegKInfo == nil {
			return nil, fmt.Errorf("library has no ESP integrity %s", s.ChildInteg)
		}
	}
	return c, nil
}

type childKeys struct{ Ei, Ai, Er, Ar []byte }

func deriveChild(s *Step, ike *security.IKESAKey, nonceArg ...[]byte) (*childKeys, *callResult) {
	res := &callResult{}
	res.RandSt = simRand.begin(RandScript{Seed: 31})
	var out *childKeys
	guard(res, func() {
		c, err := newChild(s)
		if err != nil {
			res.Err = err
			return
		}
		nonce := clone(s.Nonce)
		if len(nonceArg) > 0 {
			nonce = nonceArg[0] // the caller's own slice, handed to several derivations
		}
		if err := c.GenerateKeyForChildSA(ike, nonce); err != nil {
			res.Err = err
			return
		}
		out = &childKeys{
			Ei: c.InitiatorToResponderEncryptionKey, Ai: c.InitiatorToResponderIntegrityKey,
			Er: c.ResponderToInitiatorEncryptionKey, Ar: c.ResponderToInitiatorIntegrityKey,
		}
	})
	simRand.end()
	return out, res
}

func (k *childKeys) hash() uint64 {
	if k == nil {
		return 0
	}
	h := fnv1a(0, k.Ei)
	h = fnv1a(h, k.Ai)
	h = fnv1a(h, k.Er)
	return fnv1a(h, k.Ar)
}

func opChild(w *World, s *Step) (string, string) {
	sa := w.sa(s.SA)
	if sa == nil {
		w.stats.inc("noop_missing_sa")
		return "nosa", "nosa"
	}
	sd := s.Side
	if sd == "" {
		sd = "I"
	}
	obj := sa.Obj[side(sd)]
	// the caller keeps ONE slice holding Ni|Nr and hands it to every derivation that needs it
	callerNonce := clone(s.Nonce)
	if s.InPlace {
		buf, _ := w.ext["child_nonce_buf"].([]byte)
		if buf == nil {
			buf = make([]byte, 1100)
			w.ext["child_nonce_buf"] = buf
		}
		if len(s.Nonce) <= len(buf) {
			callerNonce = buf[:copy(buf, s.Nonce)]
			w.stats.inc("child_nonce_buffer_refilled_in_place")
		}
	}
	w.ext["child_nonce_arg"] = callerNonce
	if s.N > 1 {
		// a long-lived IKE SA: N-1 earlier derivations on this object (not inspected one by one)
		for i := 1; i < s.N; i++ {
			deriveChild(s, obj, callerNonce)
		}
		w.stats.add("soak_derivations", int64(s.N-1))
		w.stats.inc("probe_65536_derivations_on_one_ike_sa")
	}
	got, res := deriveChild(s, obj, callerNonce)
	uses, _ := w.ext[fmt.Sprintf("uses%d%s", s.SA, sd)].(int)
	w.ext[fmt.Sprintf("uses%d%s", s.SA, sd)] = uses + 1
	abs := fmt.Sprintf("%s:%d:%s:via=%v:%s:n%s", sa.Suite.Prf, s.ChildEncr, s.ChildInteg, s.ViaProp, res.class(), lenClass(len(s.Nonce)))
	obs := fmt.Sprintf("%s:%x", res.class(), got.hash())
	w.stats.inc("child_derivations")
	switch w.prop {
	case "C08":
		c08Check(w, s, sa, got, res, uses)
	case "C17":
		c17Child(w, s, sa, got, res)
	}
	return obs, abs
}

// opPrfDUse: the application uses the SA's exported SK_d-keyed PRF object itself, the way hash.Hash is
// used (Reset, Write, Sum) - e.g. SKEYSEED = prf(SK_d(old), g^ir(new) | Ni | Nr) for an IKE SA rekey
// (RFC 7296 §2.18). Sum does not reset, so the object is left with data absorbed. The value must be the
// reference prf(SK_d, data), and the next Child SA derivation must not care.
func opPrfDUse(w *World, s *Step) (string, string) {
	sa := w.sa(s.SA)
	if sa == nil {
		return "nosa", "nosa"
	}
	sd := s.Side
	if sd == "" {
		sd = "I"
	}
	obj := sa.Obj[side(sd)]
	res := &callResult{}
	var out []byte
	guard(res, func() {
		if obj.Prf_d == nil {
			res.Err = fmt.Errorf("no Prf_d")
			return
		}
		obj.Prf_d.Reset()
		for i := 0; i < len(s.Data); i += 37 { // several writes
			e := i + 37
			if e > len(s.Data) {
				e = len(s.Data)
			}
			obj.Prf_d.Write(s.Data[i:e])
		}
		out = obj.Prf_d.Sum(nil)
	})
	w.stats.inc("prf_d_used_by_application")
	if w.prop == "C08" && res.class() == "ok" {
		if want := sa.Suite.refPrf().Sum(sa.Keys.SKd, s.Data); !bytes.Equal(out, want) {
			w.violate("prf_d_not_keyed_with_sk_d", sa.Suite.Prf, "application use of Prf_d after %d operations: prf(SK_d, data) = %x, reference = %x", w.step, out, want)
		}
	}
	return fmt.Sprintf("%s:%x", res.class(), fnv1a(0, out)), "prf_d_use:" + res.class()
}

func c08Check(w *World, s *Step, sa *SA, got *childKeys, res *callResult, uses int) {
	what := fmt.Sprintf("prf_%s/aes%d/%s", sa.Suite.Prf, s.ChildEncr*8, s.ChildInteg)
	switch {
	case res.Panic != "":
		w.violate("child_panic", panicKey(res), "GenerateKeyForChildSA panicked: %s", res.Panic)
		return
	case res.Err != nil:
		w.violate("child_error", what, "Child SA derivation (%s, %d nonce octets) failed: %v", what, len(s.Nonce), res.Err)
		return
	}
	want := ref.DeriveChild(sa.Suite.refPrf(), sa.Keys.SKd, s.Nonce, s.ChildEncr, refIntegKeyLen(s.ChildInteg))
	cmp := func(name string, g, e []byte) {
		if !bytes.Equal(g, e) {
			w.violate("child_key_mismatch", what+"/"+name, "derivation #%d on this IKE SA object: %s = %x, reference prf+(SK_d, Ni|Nr) slice = %x", uses+1, name, g, e)
		}
	}
	cmp("ei", got.Ei, want.Ei)
	cmp("ai", got.Ai, want.Ai)
	cmp("er", got.Er, want.Er)
	cmp("ar", got.Ar, want.Ar)
	// the keys a freshly constructed copy of the IKE SA would give
	fresh, err := newKeyObj(sa.Suite, sa.Keys)
	if err == nil {
		callerNonce, _ := w.ext["child_nonce_arg"].([]byte)
		tw, tres := deriveChild(s, fresh, callerNonce)
		if tres.class() == "ok" && tw.hash() != got.hash() {
			w.violate("child_differs_from_fresh_sa", what, "derivation #%d on the long-lived IKE SA object differs from the same derivation on a fresh copy of that IKE SA", uses+1)
		}
	}
	// the caller keeps the derived keys; they must still be these keys at the end of the history
	hk, _ := w.ext["c08_held"].([]heldVal)
	if len(hk) < 64 {
		for _, b := range [][]byte{got.Ei, got.Ai, got.Er, got.Ar} {
			if len(b) > 0 {
				hk = append(hk, heldVal{b, clone(b), what, w.step})
			}
		}
		w.ext["c08_held"] = hk
	}
	// the caller builds on the keys it was given (key | salt, key | SPI ...): appending to one returned key
	// must not reach another one (checked when the held keys are read again at the end of the history)
	for _, b := range [][]byte{got.Ei, got.Ai, got.Er, got.Ar} {
		if len(b) > 0 {
			_ = append(b, 0xee, 0xee, 0xee, 0xee, 0xee, 0xee, 0xee, 0xee)
		}
	}
	for _, p := range [][2][]byte{{got.Ai, want.Ai}, {got.Er, want.Er}, {got.Ar, want.Ar}, {got.Ei, want.Ei}} {
		if !bytes.Equal(p[0], p[1]) {
			w.violate("returned_keys_share_memory", what, "appending 8 octets to one of the four returned Child SA keys changed another one")
			break
		}
	}
	if uses > 0 {
		w.nontriv = true
	}
	if uses >= 99 {
		w.stats.inc("probe_hundredth_derivation")
	}
	if s.ChildInteg == "" {
		w.stats.inc("probe_no_integrity")
	}
	if len(s.Nonce) == 0 {
		w.stats.inc("probe_empty_nonce")
	}
}

func genChildStep(r *Rng, saID int) Step {
	st := Step{Op: "child", SA: saID, Side: Pick(r, "I", "R"), ChildEncr: Pick(r, encrSizes...), ChildInteg: Pick(r, "", "md5", "sha1", "sha256")}
	st.ViaProp = st.ChildInteg != "" && r.Chance(1, 3)
	switch r.Intn(6) {
	case 0:
	case 1:
		st.Nonce = r.Bytes(Pick(r, 1, 16, 32, 64, 256, 512, 513, 768, 1024))
	default:
		st.Nonce = r.Bytes(r.Range(1, 80))
	}
	return st
}

// genTrafficStep: protect/unprotect traffic, forgeries and failing protects on SA 0.
func genTrafficStep(r *Rng, saID int, nextDgram *int, sent *[]int) []Step {
	switch r.Intn(6) {
	case 0, 1, 2:
		id := *nextDgram
		*nextDgram++
		st := Step{Op: "send", SA: saID, Dgram: id, From: Pick(r, "I", "R"), Msg: genSimpleMsg(r, 2), Rand: &RandScript{Seed: r.U64()}}
		if r.Chance(1, 6) {
			st.Rand.FailAt, st.Rand.FailMode = r.Range(1, 2), Pick(r, "err", "eof", "partial")
		}
		*sent = append(*sent, id)
		out := []Step{st}
		if r.Chance(2, 3) {
			out = append(out, Step{Op: "deliver", Dgram: id, Rx: genRx(r)})
		}
		return out
	case 3, 4:
		if len(*sent) == 0 {
			return nil
		}
		id := (*sent)[r.Intn(len(*sent))]
		st := Step{Op: "deliver", Dgram: id, Rx: genRx(r)}
		switch r.Intn(4) {
		case 0:
			st.Fault = &Fault{Kind: "bitflip", Byte: r.Intn(120), Bit: r.Intn(8)}
		case 1:
			st.Fault = &Fault{Kind: "truncate", Len: r.Intn(100)}
		case 2:
			st.Fault = &Fault{Kind: "garbage", Data: r.Bytes(r.Range(1, 90))}
		case 3:
			st.To = Pick(r, "I", "R")
		}
		return []Step{st}
	}
	if len(*sent) == 0 {
		return nil
	}
	return []Step{{Op: "deliver", Dgram: (*sent)[r.Intn(len(*sent))], Rx: genRx(r)}}
}

func genC08(r *Rng, idx int, tier string) *Scenario {
	sc := &Scenario{}
	su := suiteByIndex(idx / 3 * 9) // prf varies with idx/3 (index 9k selects prf k%3)
	su.Prf = prfNames[idx%3]
	su.Encr, su.Integ, su.DH = Pick(r, encrSizes...), Pick(r, integNames...), 2
	sc.Steps = append(sc.Steps, genSAStep(r, 0, su, "direct", "kdf"))
	max := 64
	if tier == "thorough" {
		max = 300
	}
	n := Pick(r, 2, 4, 8, 16, 32, max)
	mix := Pick(r, 0, 1, 2, 4) // traffic steps per derivation
	next := 0
	var sent []int
	var lastNonce Hex
	var lastCS Step
	inplace := r.Chance(1, 3)
	for i := 0; i < n; i++ {
		cs := genChildStep(r, 0)
		if i > 0 && r.Chance(1, 4) {
			cs.Nonce = lastNonce // the same Ni|Nr again (another Child SA of the same exchange, or a retry)
		}
		if inplace {
			cs.InPlace = r.Chance(3, 4)
			if cs.InPlace && i > 0 && len(lastNonce) > 0 && r.Bool() {
				cs.Nonce = r.Bytes(len(lastNonce)) // the next exchange's nonces, same sizes, same buffer
				if r.Bool() {
					cs.ChildEncr, cs.ChildInteg, cs.ViaProp = lastCS.ChildEncr, lastCS.ChildInteg, lastCS.ViaProp
				}
			}
		}
		if r.Chance(1, 12) {
			sc.Steps = append(sc.Steps, Step{Op: "prf_d_use", SA: 0, Side: cs.Side, Data: r.Bytes(r.Range(0, 300))})
		}
		if idx%2999 == 2998 && i == n/2 {
			cs.N = 1<<16 + r.Intn(50)
			if len(cs.Nonce) > 64 {
				cs.Nonce = cs.Nonce[:64]
			}
		}
		lastNonce, lastCS = cs.Nonce, cs
		sc.Steps = append(sc.Steps, cs)
		for k := 0; k < mix; k++ {
			if r.Bool() {
				sc.Steps = append(sc.Steps, genTrafficStep(r, 0, &next, &sent)...)
			}
		}
	}
	return sc
}
