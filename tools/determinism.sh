#!/bin/bash
# tools/determinism.sh [N]  - prove replay determinism: for every claimed property and several VERIF_SEED values, execute the same
# scenario indices in 30 fresh processes (10 each at GOMAXPROCS 1, 4 and 16) and diff the full event-log hashes.
set -u
export GOFLAGS=-mod=mod GOPROXY=off GOSUMDB=off GOTOOLCHAIN=local
N="${1:-40}"
VERIF_DIR="$(cd "$(dirname "$0")/.." && pwd)"; SIM="$VERIF_DIR/sim"
W="$(mktemp -d /tmp/ikedet.XXXXXX)"; trap 'rm -rf "$W"' EXIT
echo "harness: range-over-map / sync.Map.Range occurrences in behaviour paths (expected: none):"
grep -n "\.Range(func" "$SIM"/*.go "$SIM"/ref/*.go || echo "  sync.Map.Range: none"
echo "range over Go maps in the harness (each is order-independent: commutative sums, or keys sorted before use):"
grep -n "range [a-zA-Z_.]*\(Stats\|\.C\|det\|hashes\|DetHash\)\b" "$SIM"/*.go | sed 's/^/  /'

( cd "$SIM" && go build -o "$W/ikesim" . && go build -o "$W/astyield" ./cmd/astyield ) || exit 2
mkdir -p "$W/repo_y"; ( cd /repo && tar --exclude=.git -cf - . ) | ( cd "$W/repo_y" && tar -xf - )
"$W/astyield" "$W/repo_y" >/dev/null || exit 2
sed "s#=> /repo#=> $W/repo_y#" "$SIM/go.mod" >"$W/go.yield.mod"; cp "$SIM/go.sum" "$W/go.yield.sum"
( cd "$SIM" && go build -modfile="$W/go.yield.mod" -tags simyield -o "$W/ikesim_yield" . ) || exit 2
rc=0
for P in C01 C02 C06 C07 C08 C09 C10 C17 C18 C20; do
  BIN="$W/ikesim"; [ "$P" = C18 ] && BIN="$W/ikesim_yield"
  n=$N; [ "$P" = C02 ] && n=$((N/4+1)); [ "$P" = C09 ] && n=$((N/4+1))
  for SEED in 1 2 7; do
    i=0
    for GMP in 1 4 16; do
      for rep in 1 2 3 4 5 6 7 8 9 10; do
        i=$((i+1))
        ( IKESIM_C18_MODE=yield IKESIM_C18_NSER=1000000 GOMAXPROCS=$GMP "$BIN" dethash $P quick $SEED 0 $n > "$W/$P.$SEED.$i.log" 2>&1 ) &
        [ $((i % 15)) -eq 0 ] && wait
      done
    done
    wait
    bad=0
    for j in $(seq 2 30); do cmp -s "$W/$P.$SEED.1.log" "$W/$P.$SEED.$j.log" || bad=$((bad+1)); done
    lines=$(wc -l < "$W/$P.$SEED.1.log")
    if [ $bad -ne 0 ] || [ "$lines" -ne "$n" ]; then echo "NONDETERMINISM: $P seed=$SEED: $bad of 29 processes differ (lines=$lines)"; rc=1
    else echo "ok: $P seed=$SEED: 30 processes x $n scenarios, identical event logs (GOMAXPROCS 1/4/16)"; fi
    rm -f "$W/$P.$SEED."*.log
  done
done
exit $rc
