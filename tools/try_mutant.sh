#!/bin/bash
# tools/try_mutant.sh <patch.diff> <tier> <Cxx>...   apply a patch to a scratch copy of /repo, run the repo's own suite and the given checks against it
set -u
export GOFLAGS=-mod=mod GOPROXY=off GOSUMDB=off GOTOOLCHAIN=local
PATCH="$(readlink -f "$1")"; TIER="$2"; shift 2
T="$(mktemp -d /tmp/mutant.XXXXXX)"; trap 'rm -rf "$T"' EXIT
( cd /repo && tar --exclude=.git -cf - . ) | ( cd "$T" && tar -xf - )
( cd "$T" && patch -p1 -s < "$PATCH" ) || { echo "PATCH DOES NOT APPLY"; exit 2; }
( cd "$T" && go build ./... && go test -vet=off -count=1 ./... 2>&1 | grep -v "no test files" | sed 's/^/  suite: /' )
for p in "$@"; do
  out="$(VERIF_REPO="$T" VERIF_DIR_OVERRIDE=1 /verif/check.sh "$p" "$TIER" 2>&1)"; rc=$?
  echo "== $p $TIER rc=$rc: $(echo "$out" | grep -c '^VIOLATION') violation line(s)"
  echo "$out" | grep -E "^(VIOLATION|  oracle)" | head -6
done
