#!/usr/bin/env python3
"""Regenerates /verif/MANIFEST.json from the table below (kept in one place so the
manifest is always schema-valid and in step with what check.sh implements)."""
import json, os, sys

HERE = os.path.dirname(os.path.dirname(os.path.abspath(__file__)))

CLAIMED = {
 "C01": dict(level="exploration", ref="DESIGN.md §3 C01",
   technique="deterministic simulation: seeded two-endpoint sessions over an in-flight bag, random-source seam (SimRand), round-trip oracle",
   text="Seeded simulation of two endpoints of one SA in opposite roles: every IV/padding outcome is drawn through the crypto/rand.Reader seam (plain, short reads, adversarial octets, repeated streams), messages span the whole encodable domain and all 9 suites x 2 directions x 2 header modes (stratified), transport reorders and duplicates; oracle: decoded spec == sent spec, nil-key path == plain codec. Exploration is the right level: the space (messages x keys x random outcomes) is unbounded and there is no finite fault set to enumerate.",
   note="Trusts the harness's spec builder/extractor (exported fields only) and that sampled messages represent the domain; a clean batch is evidence, not proof."),
 "C02": dict(level="fault_enumeration", ref="DESIGN.md §3 C02",
   technique="deterministic simulation with transport fault injection: exhaustive per-message bit-flip/prefix/SK-shrink/first-type enumeration plus seeded edits, splices, extensions, cross-key and reflected delivery; spy cipher/MAC objects",
   text="The network between two simulated endpoints corrupts datagrams in flight. For each scenario's target message the fault set is enumerated completely (every single-bit flip, every proper prefix, SK body shrunk to every small size, every first-payload type) and further faults are sampled (format-aware extensions, edits, splices, IV/ICV/block swaps, cross-key, reflection). Oracles: no panic; reject whenever the independent chain walker says an Encrypted payload is presented; no key use on the plain path; spy in the public Encr_* fields never sees Decrypt for bytes that are not a genuine message for the receiver. Fault enumeration per message is the natural level: the single-fault space of one datagram is finite.",
   note="Exhaustive per sampled message, sampled over messages/keys/suites. Genuine-set membership and 'presents SK' are decided by the harness's reference chain walker. HMAC collisions treated as never."),
}

NA_REASON = "pure function of its input: no schedule, clock, fault, history on a stateful object, random outcome or second party for a simulator to decide (DESIGN.md §4)"
PENDING = "claimed in DESIGN.md; its simulation check is not built yet, so nothing is claimed for it in this commit"

NOT_APPLICABLE = {
 "C03": "plain codec round trip decode(encode(m)) = m is a " + NA_REASON,
 "C04": "decoder totality/boundedness over byte strings is a " + NA_REASON + "; exhaustive boundary enumeration is fuzzing, not simulation",
 "C05": "differential wire-format conformance is a " + NA_REASON,
 "C11": "finite pure algorithm<->transform table; deciding it is exhaustive enumeration of a function, not seeded search over schedules or faults",
 "C12": "decode/encode fixed point is a " + NA_REASON,
 "C13": "skip/reject of unsupported payloads is a " + NA_REASON,
 "C14": "EAP codec round trip is pure; its one nondeterministic ingredient (Go map iteration order) has no seam a simulator could own",
 "C15": "AT_MAC agreement is a pure composition mac(decode(encode(p)),k) = mac(p,k); the two ends share no state, randomness or faulty channel",
 "C16": "PRF' key hierarchy is a " + NA_REASON,
 "C19": "constructors and builders are pure functions of their arguments",
}

ALL = ["C%02d" % i for i in range(1, 21)]

def main():
    checks = []
    for pid in ALL:
        if pid not in CLAIMED:
            continue
        c = CLAIMED[pid]
        checks.append({
            "property_id": pid,
            "quick_cmd": "./check.sh %s quick" % pid,
            "thorough_cmd": "./check.sh %s thorough" % pid,
            "evidence_file": "/verif/evidence/%s.json" % pid,
            "replay_cmd_template": "./check.sh replay {path}",
            "engine": "ikesim",
            "level_claimed": {"category": c["level"], "text": c["text"], "design_ref": c["ref"]},
            "level_note": c["note"],
            "technique": c["technique"],
        })
    na = []
    for pid in ALL:
        if pid in CLAIMED:
            continue
        na.append({"property_id": pid, "reason": NOT_APPLICABLE.get(pid, PENDING)})
    m = {
        "version": 1,
        "setup_cmd": "./setup.sh",
        "hooks": {
            "guard": "verif",
            "enable": "no hook is committed to /repo: the seams used are crypto/rand.Reader (replaceable package variable), the public interface-typed IKESAKey fields (spy wrappers) and, for C18, yield calls inserted by go/ast into a scratch copy of the working tree at check time (sim/cmd/astyield); check.sh builds the harness module with replace github.com/free5gc/ike => /repo",
            "baseline_off_cmd": "cd /repo && GOFLAGS=-mod=mod GOPROXY=off GOSUMDB=off GOTOOLCHAIN=local go test -json -vet=off -count=1 -timeout 25m ./...",
            "source_commits": [],
            "add_only": True,
        },
        "engines": [{
            "name": "ikesim",
            "path": "/verif/sim",
            "serves_properties": sorted(CLAIMED.keys()),
            "kind_free_text": "deterministic simulator with fault injection written for this repository (Go): seeded scenario generator, SimRand random-source device, in-flight-bag transport with corruption faults, spy key objects, independent reference peer, baton task scheduler over AST-inserted yield points, ddmin shrinker, replay files",
        }],
        "checks": checks,
        "not_applicable": na,
        "notes": "Technique studied: deterministic simulation with fault injection. Properties that are pure functions of their input are listed under not_applicable rather than dressed up as simulations (DESIGN.md §4). Known findings: /verif/known_findings.txt.",
    }
    with open(os.path.join(HERE, "MANIFEST.json"), "w") as f:
        json.dump(m, f, indent=1)
        f.write("\n")
    try:
        import jsonschema
        jsonschema.validate(m, json.load(open("/root/.vp/MANIFEST.schema.json")))
        print("MANIFEST.json valid:", len(checks), "checks,", len(na), "not applicable")
    except ImportError:
        print("MANIFEST.json written (jsonschema not importable here)")

if __name__ == "__main__":
    main()
