#!/usr/bin/env python3
"""Regenerates /verif/MANIFEST.json from the table below (kept in one place so the
manifest is always schema-valid and in step with what check.sh implements)."""
import json, os, sys

HERE = os.path.dirname(os.path.dirname(os.path.abspath(__file__)))

CLAIMED = {
 "C01": dict(level="exploration", ref="DESIGN.md §3 C01",
   technique="deterministic simulation: seeded two-endpoint sessions over an in-flight bag, random-source seam (SimRand), round-trip oracle",
   text="Seeded simulation of two endpoints of one SA in opposite roles: every IV/padding outcome is drawn through the crypto/rand.Reader seam (plain, short reads, adversarial octets, repeated streams), messages span the whole encodable domain and all 9 suites x 2 directions x 2 header modes (stratified), transport reorders and duplicates; message objects carry stale header bookkeeping; the random source sometimes fails and the sender retries on the same message object; the receiver pre-parses the header from the whole datagram, from its first 28 octets, or not at all; oracle: decoded spec == sent spec, nil-key path == plain codec. Exploration is the right level: the space (messages x keys x random outcomes) is unbounded and there is no finite fault set to enumerate.",
   note="Trusts the harness's spec builder/extractor (exported fields only) and that sampled messages represent the domain; a clean batch is evidence, not proof."),
 "C02": dict(level="fault_enumeration", ref="DESIGN.md §3 C02",
   technique="deterministic simulation with transport fault injection: exhaustive per-message bit-flip/prefix/SK-shrink/first-type enumeration plus seeded edits, splices, extensions, cross-key and reflected delivery; spy cipher/MAC objects",
   text="The network between two simulated endpoints corrupts datagrams in flight. For each scenario's target message the fault set is enumerated completely (every single-bit flip, every proper prefix, SK body shrunk to every small size, every first-payload type) and further faults are sampled (format-aware extensions incl. mutated valid payloads of the announced type and SA tails with boundary length fields, edits, splices, IV/ICV/block swaps, cross-key, reflection, the same receive buffer presented twice, authentic-but-malformed SK bodies made by a key holder; half of the scenarios after the receiver already unprotected the genuine messages). Oracles: no panic; reject whenever the independent chain walker says an Encrypted payload is presented; no key use on the plain path; spy in the public Encr_* fields never sees Decrypt for bytes that are not a genuine message for the receiver. Fault enumeration per message is the natural level: the single-fault space of one datagram is finite.",
   note="Exhaustive per sampled message, sampled over messages/keys/suites. Genuine-set membership and 'presents SK' are decided by the harness's reference chain walker. HMAC collisions treated as never."),
 "C06": dict(level="exploration", ref="DESIGN.md §3 C06",
   technique="deterministic simulation of a heterogeneous deployment: real endpoint <-> independent reference peer, IV/padding via the random-source seam, refinement oracle in both directions",
   text="Two-party simulation in which one party is the library and the other an independently written RFC 7296 §3.14 implementation holding the same raw keys. Direction A: whatever the library protects (all suites, both roles, SimRand-scripted IV/padding) must verify, decrypt and parse at the reference peer field by field. Direction B: reference-built datagrams with any IV, any legal pad length 0..255 and arbitrary pad octets must be accepted and decoded to the original list, also when the peer inserts unknown non-critical payloads (plain decoder as yardstick). Exploration: unbounded message/key space, seeded and stratified.",
   note="Trusts the reference peer (self-tested against RFC vectors). SA and EAP payload bodies use the library's plain codec as yardstick (that codec is C03/C05's subject)."),
 "C07": dict(level="exploration", ref="DESIGN.md §3 C07",
   technique="deterministic two-party simulation of the IKE_SA_INIT key agreement with simulator-chosen DH exponents (SimRand) against a reference KDF model",
   text="Initiator and responder both run real library code (GenerateRandomNumber/GetPublicValue/GetSharedKey/GenerateKeyForIKESA vs NewIKESAKey on ToProposal- or Build*-made proposals), exponents drawn through the random-source seam, values handed over in memory; a second class feeds synthetic secrets of 1..512 octets. Oracle: both parties' SK_* equal each other and the reference prf+ slices with RFC lengths for all 54 algorithm combinations (stratified); every ready-made PRF/integrity/cipher object answers like the reference keyed with its slice; objects of the two parties interoperate pairwise; SAs derived earlier are re-inspected after later derivations; a key object re-keyed a second time must hold exactly the new keys.",
   note="No schedule or clock dimension exists here; what simulation adds over a table test is the second party, scripted exponents and the reference model. Trusts the reference KDF (validated against the repository's pinned vector)."),
 "C08": dict(level="exploration", ref="DESIGN.md §3 C08",
   technique="deterministic simulation of operation histories on one long-lived IKE SA object, model-based check against reference prf+ and a fresh twin SA",
   text="Histories of up to 64 (thorough 300) steps on the two long-lived key objects of one IKE SA mix Child SA derivations (all ESP size/integrity combinations, nonces 0..512, built directly and via NewChildSAKeyByProposal) with protect/unprotect traffic, rejected forgeries and protect calls whose random source fails. After every derivation the four keys must equal the reference prf+(SK_d, Ni|Nr) slices and what a fresh IKE SA object built from the same SK bytes derives.",
   note="Sampled histories; the stateful Prf_d object is the only carrier of history, and every derivation is compared."),
 "C09": dict(level="fault_enumeration", ref="DESIGN.md §3 C09",
   technique="deterministic simulation with random-source fault injection enumerated over every read index; scripted exponents; Byzantine peer values; reference modexp over primes computed from pi",
   text="For exponent generation and NewIKESAKey the random source fails at EVERY read index of a clean run in three failure modes, with short reads (1/7/64/255) so failures fall inside the draw; bursts force both rejection loops. Public values and shared secrets for boundary exponents and Byzantine peer values are compared with an independent modexp whose primes are computed from the RFC formula (pi by Machin), so a wrong digit in the library's constants cannot be self-consistent. Two-party agreement with generated exponents on both groups (either order of public/shared computation); callers reuse their exponent object; arguments must come back unchanged; exponents handed out earlier are re-read at the end of the run.",
   note="Fault positions are enumerated completely per sampled script; exponent/peer values are sampled plus fixed corner cases."),
 "C10": dict(level="fault_enumeration", ref="DESIGN.md §3 C10",
   technique="deterministic simulation of call histories on long-lived cipher objects with random-source failure at every read index; IV freshness observed at the random-source seam; reference AES-CBC",
   text="Histories of up to 64 calls on 1..3 cipher objects mix Encrypt (every random-source script), Decrypt of own/other/reference-made ciphertext with any legal padding, malformed input, and Encrypt with the source failing at every read index (three modes, short reads so the failure lands inside padding or IV). Exhaustive sub-tables: NewCrypto for every key length 0..64 x 3 sizes; Decrypt for all lengths 0..96 x all 256 pad-length octets. Oracles: inverse, size law, textbook CBC, IV consumed from the source and never repeated across calls and objects, error-not-ciphertext on failure, error-not-panic on malformed input; callers reuse their key buffer for successive objects.",
   note="IV freshness is asserted only for non-repeating streams; which served octets become the IV is deliberately not asserted."),
 "C17": dict(level="exploration", ref="DESIGN.md §3 C17",
   technique="deterministic simulation of operation/fault histories on one long-lived IKESAKey, model-based comparison of every operation with a fresh twin, fault-free epilogue as bounded liveness",
   text="The core history simulation: up to 64 (thorough 512) operations - protect as either role, unprotect genuine/tampered/truncated/garbage/cross-key/reflected, derive Child SA, protect with failing random source, authentic-but-malformed datagrams made by a key holder, failed protects retried on the same message, one object serving both roles - on long-lived key objects; each operation is repeated on a fresh twin built from the same SK bytes and outcome classes are compared; every run ends with a fault-free epilogue that must succeed at once.",
   note="Relative oracle: only differences from the fresh twin are flagged (a defect shared with the twin belongs to C01/C02)."),
 "C18": dict(level="exploration", ref="DESIGN.md §3 C18, §2.8",
   technique="deterministic simulation with a seeded baton scheduler over go/ast-inserted statement-level yield points (exactly replayable interleavings) plus seeded concurrent rounds on real cores under the Go race detector",
   text="Up to 8 tasks (64 in parallel mode) with private SAs/messages run operation lists over the whole API surface. Serialized mode: explicit (task, quantum) schedules switch tasks at ~1700 yield points inserted before every library statement in a scratch copy of the working tree, at every random-source read and spy call; each task's full observable trace (incl. ciphertext digests; every task has its own random stream; error values and generated exponents are read again when the task ends) must equal its solo trace; the overlapping run comes before the solo runs so lazily initialised state is cold; some tasks hold distinct key objects with identical key material; several tasks unprotect one shared (possibly forged) datagram in place and the input slice must stay unwritten. Parallel mode: seeded rounds decide which operations overlap on GOMAXPROCS 2/4/8/16 with -race; any race report, fatal runtime error or trace difference is a violation.",
   note="Serialized interleavings are exactly replayable and shrinkable; inside a parallel round the instruction-level interleaving is the machine's, so a race finding replays 'k of 5 runs'. Function literals are not instrumented."),
 "C20": dict(level="exploration", ref="DESIGN.md §3 C20",
   technique="deterministic simulation of the receive-buffer life cycle (one reused arena, scribbles, queued decoded messages) and of retransmission re-encoding; self-consistency oracle over snapshots",
   text="A receive loop that reuses one buffer while decoded messages are still queued (hold 0..8 events), with complement/random/zero scribbles and exact/spare-capacity slices; held IKE_SA_INIT-like messages feed a key derivation after the buffer was reused. Send side re-encodes 2..8 times and scribbles returned buffers. Decoded messages are re-encoded (purity, determinism across buffer reuse), buffers returned by the public container encoder are held across later encodings, plain datagrams no encoder of ours produces (flipped reserved bits, unknown EAP-AKA' attribute types) are decoded too, proposals share one transform container. Oracles compare snapshots of the same message over time (never with the sent spec), original payload objects before/after EncodeEncrypt, and repeated encodings byte for byte.",
   note="Go's randomised map iteration (EAP-AKA' attributes) has no seam; repeat-encoding samples it and can never raise a false alarm."),
}

# what later mutation waves added to each check (DESIGN.md §10, seventh wave)
ADDENDA = {
 "C01": " Also: deployment-shaped messages (3GPP NAIs, DER certificates, EAP-5G), the header parsed from a receive buffer that is reused before the private copy is unprotected, another SA's keys tried on the same buffer first, and the identical datagram delivered again after the caller edited the decoded message.",
 "C02": " Also: a cipher.Block spy inside the stock AES-CBC object (below the IKECrypto interface), octets prepended in front of the genuine message, and corruption that CRC-32 / additive / xor / 16-bit-word checksums do not notice delivered right after the genuine datagram.",
 "C06": " Also: SAs keyed again on a copy of the old key object (rekey) and receivers that try another SA's keys on the same buffer first.",
 "C07": " Also: raw keys zeroised before the first use of the ready-made objects, one SA object keyed again from the caller's refilled nonce/secret buffers with the same SPIs, IKE proposals carrying an 8-octet SPI.",
 "C08": " Also: one nonce buffer refilled in place across derivations, application use of the exported Prf_d between derivations, and soak histories of 2^16 derivations on one IKE SA.",
 "C09": " Also: CalculateDiffieHellmanMaterials against a known peer exponent with the caller appending to the returned values, and soak runs of more than 2^20 operations on one process-wide group object.",
 "C10": " Also: junk appended into the spare capacity of earlier ciphertexts before later ones are used.",
 "C17": " Also: soak steps (2^16 consecutive forgeries, retransmissions or protect calls on one key object) and checksum-preserving corruption after an accepted genuine datagram.",
 "C18": " The scheduler never parks a task inside a critical section of the library (Lock/Unlock/Do tracked by the instrumentation); a watchdog hit in the serialized phase counts as a hang only if it persists without any parking.",
 "C20": " Also: deployment-shaped data (DER-framed certificates of realistic size, mixed-case NAIs).",
}

NA_REASON = "pure function of its input: no schedule, clock, fault, history on a stateful object, random outcome or second party for a simulator to decide (DESIGN.md §4)"
PENDING = "claimed in DESIGN.md; its simulation check is not built yet, so nothing is claimed for it in this commit"

NOT_APPLICABLE = {
 "C03": "plain codec round trip decode(encode(m)) = m is a " + NA_REASON,
 "C04": "decoder totality/boundedness over byte strings is a " + NA_REASON + "; exhaustive boundary enumeration is fuzzing, not simulation",
 "C05": "differential wire-format conformance is a " + NA_REASON,
 "C11": "finite pure algorithm<->transform table; deciding it is exhaustive enumeration of a function, not seeded search over schedules or faults",
 "C12": "decode/encode fixed point is a " + NA_REASON,
 "C13": "skip/reject of unsupported payloads is a " + NA_REASON,
 "C14": "EAP codec round trip is pure; its one nondeterministic ingredient (Go map iteration order) has no seam a simulator could own",
 "C15": "AT_MAC agreement is a pure composition mac(decode(encode(p)),k) = mac(p,k); the two ends share no state, randomness or faulty channel",
 "C16": "PRF' key hierarchy is a " + NA_REASON,
 "C19": "constructors and builders are pure functions of their arguments",
}

ALL = ["C%02d" % i for i in range(1, 21)]

def main():
    checks = []
    for pid in ALL:
        if pid not in CLAIMED:
            continue
        c = CLAIMED[pid]
        checks.append({
            "property_id": pid,
            "quick_cmd": "./check.sh %s quick" % pid,
            "thorough_cmd": "./check.sh %s thorough" % pid,
            "evidence_file": "/verif/evidence/%s.json" % pid,
            "replay_cmd_template": "./check.sh replay {path}",
            "engine": "ikesim",
            "level_claimed": {"category": c["level"], "text": c["text"] + ADDENDA.get(pid, ""), "design_ref": c["ref"]},
            "level_note": c["note"],
            "technique": c["technique"],
        })
    na = []
    for pid in ALL:
        if pid in CLAIMED:
            continue
        na.append({"property_id": pid, "reason": NOT_APPLICABLE.get(pid, PENDING)})
    m = {
        "version": 1,
        "setup_cmd": "./setup.sh",
        "hooks": {
            "guard": "verif",
            "enable": "no hook is committed to /repo: the seams used are crypto/rand.Reader (replaceable package variable), the public interface-typed IKESAKey fields (spy wrappers) and, for C18, yield calls inserted by go/ast into a scratch copy of the working tree at check time (sim/cmd/astyield); check.sh builds the harness module with replace github.com/free5gc/ike => /repo",
            "baseline_off_cmd": "cd /repo && GOFLAGS=-mod=mod GOPROXY=off GOSUMDB=off GOTOOLCHAIN=local go test -json -vet=off -count=1 -timeout 25m ./...",
            "source_commits": [],
            "add_only": True,
        },
        "engines": [{
            "name": "ikesim",
            "path": "/verif/sim",
            "serves_properties": sorted(CLAIMED.keys()),
            "kind_free_text": "deterministic simulator with fault injection written for this repository (Go): seeded scenario generator, SimRand random-source device, in-flight-bag transport with corruption faults, spy key objects, independent reference peer, baton task scheduler over AST-inserted yield points, ddmin shrinker, replay files",
        }],
        "checks": checks,
        "not_applicable": na,
        "notes": "Technique studied: deterministic simulation with fault injection. Properties that are pure functions of their input are listed under not_applicable rather than dressed up as simulations (DESIGN.md §4). Known findings: /verif/known_findings.txt.",
    }
    with open(os.path.join(HERE, "MANIFEST.json"), "w") as f:
        json.dump(m, f, indent=1)
        f.write("\n")
    try:
        import jsonschema
        jsonschema.validate(m, json.load(open("/root/.vp/MANIFEST.schema.json")))
        print("MANIFEST.json valid:", len(checks), "checks,", len(na), "not applicable")
    except ImportError:
        print("MANIFEST.json written (jsonschema not importable here)")

if __name__ == "__main__":
    main()
