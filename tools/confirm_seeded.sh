#!/bin/bash
# tools/confirm_seeded.sh <dir with patch.diff + demo_test.go> <package dir for the demo> <go test -run pattern> [extra go test flags]
# Confirms a seeded change independently: applies, builds, repo suite passes, demo FAILS with it and PASSES without it.
set -u
export GOFLAGS=-mod=mod GOPROXY=off GOSUMDB=off GOTOOLCHAIN=local
D="$(readlink -f "$1")"; PKG="$2"; RUN="$3"; shift 3
T="$(mktemp -d /tmp/confirm.XXXXXX)"; trap 'rm -rf "$T"' EXIT
( cd /repo && tar --exclude=.git -cf - . ) | ( cd "$T" && tar -xf - )
cp "$D"/*_test.go "$T/$PKG/" 2>/dev/null
( cd "$T" && go test -vet=off -count=1 "$@" -run "$RUN" "./$PKG/" >"$T/clean.log" 2>&1 ); clean=$?
( cd "$T" && patch -p1 -s < "$D/patch.diff" ) || { echo "RESULT patch_applies=no"; exit 1; }
( cd "$T" && go build ./... >"$T/build.log" 2>&1 ); build=$?
for f in "$D"/*_test.go; do rm -f "$T/$PKG/$(basename "$f")"; done
( cd "$T" && go test -vet=off -count=1 ./... >"$T/suite.log" 2>&1 ); suite=$?
cp "$D"/*_test.go "$T/$PKG/"
( cd "$T" && go test -vet=off -count=1 "$@" -run "$RUN" "./$PKG/" >"$T/mut.log" 2>&1 ); mut=$?
echo "RESULT patch_applies=yes build=$build repo_suite=$suite demo_on_clean=$clean demo_on_mutant=$mut  (want 0 0 0 nonzero)"
[ $build -eq 0 ] && [ $suite -eq 0 ] && [ $clean -eq 0 ] && [ $mut -ne 0 ]
