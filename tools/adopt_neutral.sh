#!/bin/bash
# tools/adopt_neutral.sh <Nx> <k> "<what is observably different>"  - confirm a behaviour-preserving change and keep it under /verif/neutral/
set -u
export GOFLAGS=-mod=mod GOPROXY=off GOSUMDB=off GOTOOLCHAIN=local
N="$1"; K="$2"; WHAT="$3"
SRC="${NWTOUT:-/tmp/wtout3}/$N/r$K"; DST="/verif/neutral/$N-r$K"
T="$(mktemp -d /tmp/confirm.XXXXXX)"; trap 'rm -rf "$T"' EXIT
( cd /repo && tar --exclude=.git -cf - . ) | ( cd "$T" && tar -xf - )
( cd "$T" && patch -p1 -s < "$SRC/patch.diff" ) || { echo "$N-r$K patch does not apply"; exit 1; }
( cd "$T" && go build ./... && go test -vet=off -count=1 ./... >/dev/null 2>&1 && go test -race -vet=off -count=1 ./... >/dev/null 2>&1 ) || { echo "$N-r$K build or suite fails - not kept"; exit 1; }
mkdir -p "$DST"; cp "$SRC/patch.diff" "$SRC/notes.md" "$DST/"
python3 - "$DST" "$WHAT" <<'PY'
import json, sys
dst, what = sys.argv[1:3]
json.dump({"id": dst.split("/")[-1], "kind": "behaviour-preserving change (false-alarm resistance)", "observably_different": what,
  "author": "independent sub-agent given all property statements and a scratch worktree",
  "confirmed_by_me": "patch applies to a scratch copy of /repo; go build ./...; unedited repo suite passes, also with -race"}, open(dst + "/meta.json", "w"), indent=1)
PY
echo "$N-r$K kept"
