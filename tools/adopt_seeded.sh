#!/bin/bash
# tools/adopt_seeded.sh <Cxx> <k> <pkgdir> <run pattern> "<what it needs to manifest>" [extra go test flags]
# confirm /tmp/wtout/<Cxx>/m<k> independently, then keep it as /verif/seeded/<Cxx>-m<k>/
set -u
P="$1"; K="$2"; PKG="$3"; RUN="$4"; NEEDS="$5"; shift 5
SRC="${WTOUT:-/tmp/wtout}/$P/m$K"; DST="/verif/seeded/$P-${PFX:-m}$K"
out="$(/verif/tools/confirm_seeded.sh "$SRC" "$PKG" "$RUN" "$@")"; rc=$?
echo "$P-${PFX:-m}$K: $out"
[ $rc -eq 0 ] || { echo "$P-${PFX:-m}$K NOT CONFIRMED - not kept"; exit 1; }
mkdir -p "$DST"; cp "$SRC/patch.diff" "$SRC"/demo*_test.go "$SRC/notes.md" "$DST/"
python3 - "$DST" "$P" "$PKG" "$RUN" "$NEEDS" "$out" "$*" <<'PY'
import json, sys
dst, prop, pkg, run, needs, out, flags = sys.argv[1:8]
title = open(dst + "/notes.md").readline().strip("# \n")
json.dump({
  "id": dst.split("/")[-1], "property": prop, "title": title, "needs_to_manifest": needs,
  "author": "independent sub-agent given only the property text and a scratch worktree",
  "demonstration": {"file": "demo_test.go", "copy_into": pkg, "command": "go test -vet=off -count=1 %s -run '%s' ./%s/" % (flags, run, pkg)},
  "confirmed_by_me": out.strip(),
  "what_i_ran": "tools/confirm_seeded.sh: scratch copy of /repo; demo passes on clean tree; patch applies; go build ./...; unedited repo suite passes; demo fails with the patch",
}, open(dst + "/meta.json", "w"), indent=1)
PY
