#!/usr/bin/env python3
"""Apply every catalogue entry (and every /verif/seeded/*/patch.diff) to a scratch copy of /repo, run the repository's own
suite and the expected quick checks against it; write sensitivity/results.json. Usage: run.py [name-substring] [--tier quick|thorough]"""
import json, os, shutil, subprocess, sys, tempfile, glob
sys.path.insert(0, os.path.dirname(os.path.abspath(__file__)))
from catalogue import CATALOGUE, NEUTRAL, ALL
ENV = dict(os.environ, GOFLAGS="-mod=mod", GOPROXY="off", GOSUMDB="off", GOTOOLCHAIN="local")
VERIF = os.path.dirname(os.path.dirname(os.path.abspath(__file__)))

def sh(cmd, cwd=None, env=ENV, timeout=3600):
    r = subprocess.run(cmd, shell=True, cwd=cwd, env=env, capture_output=True, text=True, timeout=timeout)
    return r.returncode, r.stdout + r.stderr

def scratch():
    d = tempfile.mkdtemp(prefix="sens.", dir="/tmp")
    sh("cd /repo && tar --exclude=.git -cf - . | (cd %s && tar -xf -)" % d)
    return d

def evaluate(name, props, apply, tier):
    d = scratch()
    try:
        err = apply(d)
        if err:
            return dict(name=name, error=err)
        rc, out = sh("go build ./... && go test -vet=off -count=1 ./...", cwd=d)
        suite_ok = rc == 0
        res = dict(name=name, expected=props, repo_suite_passes=suite_ok, checks={})
        for p in props:
            rc, out = sh("%s/check.sh %s %s" % (VERIF, p, tier), env=dict(ENV, VERIF_REPO=d, VERIF_DIR_EVIDENCE="skip"))
            viol = [l for l in out.splitlines() if l.startswith("VIOLATION")]
            oracles = [l.strip() for l in out.splitlines() if l.startswith("  oracle=")]
            res["checks"][p] = dict(exit=rc, violations=len(viol), oracles=oracles[:4])
        res["detected_by"] = [p for p in props if res["checks"][p]["exit"] == 1]
        return res
    finally:
        shutil.rmtree(d, ignore_errors=True)

def main():
    args = [a for a in sys.argv[1:] if not a.startswith("--")]
    tier = "quick"
    if "--tier" in sys.argv:
        tier = sys.argv[sys.argv.index("--tier") + 1]
    flt = args[0] if args else ""
    results = []
    for e in CATALOGUE:
        if flt and flt not in e["name"]:
            continue
        def apply(d, e=e):
            for f, old, new in e["edits"]:
                p = os.path.join(d, f); s = open(p).read()
                if s.count(old) != 1:
                    return "edit does not apply to %s (%d matches)" % (f, s.count(old))
                open(p, "w").write(s.replace(old, new))
            rc, out = sh("gofmt -w .", cwd=d)
            return None
        r = evaluate("own/" + e["name"], e["props"], apply, tier)
        print(json.dumps(r)); sys.stdout.flush()
        results.append(r)
    for e in NEUTRAL:
        if flt and flt not in e["name"] and flt != "neutral":
            continue
        def apply(d, e=e):
            for f, old, new in e["edits"]:
                p = os.path.join(d, f); s = open(p).read()
                if s.count(old) != 1:
                    return "edit does not apply to %s (%d matches)" % (f, s.count(old))
                open(p, "w").write(s.replace(old, new))
            rc, out = sh("gofmt -w .", cwd=d)
            return None
        r = evaluate("neutral/" + e["name"], ALL, apply, tier)
        r["expected"] = []
        r["false_alarms"] = [p for p in ALL if r.get("checks", {}).get(p, {}).get("exit") != 0]
        print(json.dumps(r)); sys.stdout.flush()
        results.append(r)
    for meta in sorted(glob.glob(os.path.join(VERIF, "neutral", "*", "meta.json"))):
        sid = os.path.basename(os.path.dirname(meta))
        if flt and flt not in sid and flt != "neutral":
            continue
        patch = os.path.join(os.path.dirname(meta), "patch.diff")
        def apply(d, patch=patch):
            rc, out = sh("patch -p1 -s < %s" % patch, cwd=d)
            return None if rc == 0 else "patch does not apply: " + out[:200]
        r = evaluate("neutral/" + sid, ALL, apply, tier)
        r["expected"] = []
        r["false_alarms"] = [p for p in ALL if r.get("checks", {}).get(p, {}).get("exit") != 0]
        print(json.dumps(r)); sys.stdout.flush()
        results.append(r)
    for meta in sorted(glob.glob(os.path.join(VERIF, "seeded", "*", "meta.json"))):
        if flt == "neutral":
            break
        m = json.load(open(meta)); sid = os.path.basename(os.path.dirname(meta))
        if flt and flt not in sid:
            continue
        patch = os.path.join(os.path.dirname(meta), "patch.diff")
        def apply(d, patch=patch):
            rc, out = sh("patch -p1 -s < %s" % patch, cwd=d)
            return None if rc == 0 else "patch does not apply: " + out[:200]
        props = m.get("run_checks") or [m["property"]]
        r = evaluate("seeded/" + sid, props, apply, tier)
        print(json.dumps(r)); sys.stdout.flush()
        results.append(r)
    if not flt:
        json.dump(results, open(os.path.join(VERIF, "sensitivity", "results_%s.json" % tier), "w"), indent=1)

if __name__ == "__main__":
    main()
