#!/bin/bash
# /verif/check.sh <Cxx> <quick|thorough>   run one property check (rebuilds from /repo's working tree)
# /verif/check.sh replay <file>            re-execute a replay file in a fresh process
# exit 0 = held on everything explored, 1 = VIOLATION line printed, 2 = harness/build/watchdog trouble
set -u
export GOFLAGS=-mod=mod GOPROXY=off GOSUMDB=off GOTOOLCHAIN=local
export CARGO_NET_OFFLINE=true PIP_NO_INDEX=1
VERIF_DIR="$(cd "$(dirname "$0")" && pwd)"
export VERIF_DIR
REPO="${VERIF_REPO:-/repo}"
SIM="$VERIF_DIR/sim"

if [ $# -lt 2 ]; then
  echo "usage: $0 <Cxx> <quick|thorough> | replay <file>" >&2
  exit 2
fi

WORK="$(mktemp -d "${TMPDIR:-/tmp}/ikesim.XXXXXX")" || exit 2
trap 'rm -rf "$WORK"' EXIT

# the harness module always builds against the current working tree of $REPO
build_plain() {
  ( cd "$SIM" && go build -o "$WORK/ikesim" . ) >"$WORK/build.log" 2>&1 || {
    echo "BUILD FAILED (harness or /repo does not compile):" >&2; cat "$WORK/build.log" >&2; exit 2; }
}

# C18 needs two more binaries: an AST-instrumented scratch copy (yield points)
# and a -race build. Both live in $WORK and disappear with it.
build_c18() {
  ( cd "$SIM" && go build -o "$WORK/astyield" ./cmd/astyield ) >"$WORK/build.log" 2>&1 || {
    echo "BUILD FAILED (astyield):" >&2; cat "$WORK/build.log" >&2; exit 2; }
  mkdir -p "$WORK/repo_y"
  ( cd "$REPO" && tar --exclude=.git -cf - . ) | ( cd "$WORK/repo_y" && tar -xf - ) || exit 2
  "$WORK/astyield" "$WORK/repo_y" >"$WORK/astyield.log" 2>&1 || {
    echo "astyield failed:" >&2; cat "$WORK/astyield.log" >&2; exit 2; }
  sed "s#=> /repo#=> $WORK/repo_y#" "$SIM/go.mod" >"$WORK/go.yield.mod"
  cp "$SIM/go.sum" "$WORK/go.yield.sum"
  ( cd "$SIM" && go build -modfile="$WORK/go.yield.mod" -tags simyield -o "$WORK/ikesim_yield" . ) >"$WORK/build.log" 2>&1 || {
    echo "BUILD FAILED (instrumented copy):" >&2; cat "$WORK/build.log" >&2; exit 2; }
  ( cd "$SIM" && go build -race -o "$WORK/ikesim_race" . ) >"$WORK/build.log" 2>&1 || {
    echo "BUILD FAILED (-race):" >&2; cat "$WORK/build.log" >&2; exit 2; }
  export IKESIM_YIELD_BIN="$WORK/ikesim_yield" IKESIM_RACE_BIN="$WORK/ikesim_race"
  export IKESIM_YIELD_SITES="$(tail -n1 "$WORK/astyield.log")"
}

if [ -n "${VERIF_REPO:-}" ]; then
  # alternative tree (used by the sensitivity catalogue): point the replace at it
  sed "s#=> /repo#=> $REPO#" "$SIM/go.mod" >"$WORK/go.alt.mod"; cp "$SIM/go.sum" "$WORK/go.alt.sum"
  export GOFLAGS="$GOFLAGS -modfile=$WORK/go.alt.mod"
  # evidence of a run against another tree must never replace the real evidence
  export VERIF_EVIDENCE_DIR="${VERIF_EVIDENCE_DIR:-$WORK/evidence}"
fi

if [ "$1" = "replay" ]; then
  build_plain
  if grep -q '"property": "C18"' "$2" 2>/dev/null; then build_c18; fi
  "$WORK/ikesim" replay "$2"
  exit $?
fi

PROP="$1"; TIER="$2"
# the tier argument is authoritative; VERIF_TIER is informational
case "$TIER" in quick|thorough) ;; *) echo "bad tier $TIER" >&2; exit 2;; esac

build_plain
[ "$PROP" = "C18" ] && build_c18
"$WORK/ikesim" run "$PROP" "$TIER"
rc=$?
case $rc in 0|1) exit $rc;; *) exit 2;; esac
