#!/bin/bash
# offline setup: verify the toolchain and warm the build cache (std + /repo + harness, also with -race)
set -eu
export GOFLAGS=-mod=mod GOPROXY=off GOSUMDB=off GOTOOLCHAIN=local
cd "$(dirname "$0")/sim"
go version | grep -q 'go1\.23' || { echo "expected the repository's baseline toolchain go1.23.x, got: $(go version)" >&2; exit 1; }
T="$(mktemp -d)"; trap 'rm -rf "$T"' EXIT
go build -o "$T/ikesim" .
go build -race -o "$T/ikesim_race" .
go build -o "$T/astyield" ./cmd/astyield
"$T/ikesim" selftest
echo "setup ok"
